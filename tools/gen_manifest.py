#!/usr/bin/env python3
"""Generate /verif/MANIFEST.json from tools/claims.json (claimed checks) and
properties.jsonl (everything not claimed goes to not_applicable with its reason)."""
import json, os
root = os.path.dirname(os.path.dirname(os.path.abspath(__file__)))
claims = json.load(open(os.path.join(root, "tools", "claims.json")))
props = [json.loads(l) for l in open(os.path.join(root, "properties.jsonl"))]
GOENV = "GOFLAGS=-mod=mod GOPROXY=off GOSUMDB=off GOTOOLCHAIN=local"
checks, na = [], []
for p in props:
    pid = p["id"]
    c = claims["claimed"].get(pid)
    if c:
        checks.append({
            "property_id": pid,
            "quick_cmd": f"bin/gosymex check {pid} --tier quick",
            "thorough_cmd": f"bin/gosymex check {pid} --tier thorough",
            "evidence_file": f"evidence/{pid}.json",
            "replay_cmd_template": f"bin/gosymex replay {pid} {{path}}",
            "engine": "gosymex",
            "level_claimed": {"category": "model_checking", "text": c["text"], "design_ref": c.get("design_ref", "DESIGN.md section 5 " + pid)},
            "level_note": c["note"],
            "technique": c.get("technique", "bounded symbolic execution of go/ssa + SMT (z3): path conditions and assertions discharged by the solver, counterexamples replayed natively"),
        })
    else:
        na.append({"property_id": pid, "reason": claims["not_applicable"].get(pid, "not yet decided by the solver-based machinery in this tree; see DESIGN.md section 7")})
m = {
    "version": 1,
    "setup_cmd": f"cd engine && {GOENV} go build -o ../bin/gosymex .",
    "hooks": {
        "guard": "verif",
        "enable": "harness + shim files under /verif/harness carry //go:build verif and are injected into /repo packages by overlay (go/packages Config.Overlay for the symbolic engine, go test -overlay -tags verif for native replay); no file of /repo is modified",
        "baseline_off_cmd": f"for m in . ./pkg/topology; do (cd /repo/$m && {GOENV} go test -mod=mod -json -vet=off -count=1 -timeout 25m ./...); done",
        "source_commits": claims.get("hook_commits", []),
        "add_only": True,
    },
    "engines": [{"name": "gosymex", "path": "engine", "serves_properties": [c["property_id"] for c in checks],
                 "kind_free_text": "own symbolic executor over go/ssa (derived from x/tools ssa/interp): mixed concrete/symbolic values, forking by re-execution, z3 -in per worker, native replay of every model"}],
    "checks": checks,
    "notes": claims.get("notes", ""),
    "not_applicable": na,
}
json.dump(m, open(os.path.join(root, "MANIFEST.json"), "w"), indent=1)
print("claimed:", [c["property_id"] for c in checks])
print("not_applicable:", [x["property_id"] for x in na])
