#!/bin/bash
# usage: retry_seeded.sh <seeded dir name> <PROP_ID> [gosymex args]: apply the saved patch to /repo, run the quick check, revert.
set -u
D=/verif/seeded/$1; ID=$2; shift 2
cd /repo && git diff --quiet || { echo "/repo dirty"; exit 2; }
git apply $D/patch.diff || exit 2
cd /verif && ./bin/gosymex check $ID --no-evidence "$@" 2>&1 | grep -v "^\[" | cut -c1-300 | tail -5
cd /repo && git checkout -- . && git status --short | grep -v testdata
