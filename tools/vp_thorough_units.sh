#!/bin/bash
# usage: BUDGET=<s> tools/vp_thorough_units.sh <workers> "<ID>:<unit,unit>" ...  - thorough smoke run of selected units in a vp background run
w=$1; shift
pairs="$*"
vp run --with-repo -- bash -c 'export GOFLAGS=-mod=mod GOPROXY=off GOSUMDB=off GOTOOLCHAIN=local VERIF_ROOT=$PWD VERIF_REPO=$VP_RUN_REPO VERIF_THOROUGH_BUDGET_S='"${BUDGET:-0}"'; cd engine && go build -o ../bin/gosymex . && cd .. && for p in '"$pairs"'; do id=${p%%:*}; units=${p#*:}; s=$(date +%s); bin/gosymex check $id --tier thorough --only $units --workers '"$w"' --no-evidence > out.$id.log 2>&1; echo "$id [$units] exit=$? $(( $(date +%s) - s ))s"; grep "^VIOLATION\|^INCONCLUSIVE\|^ENGINE-ERROR\|^OK" out.$id.log | cut -c1-260; done'
