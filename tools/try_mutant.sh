#!/bin/bash
# usage: try_mutant.sh <PROP_ID> <worktree> [extra gosymex args]
# Confirms a seeded change (build, demo fails with / passes without), runs the quick check of
# the property against it on /repo and reverts /repo afterwards.
set -u
ID=$1; WT=$2; shift 2
export GOFLAGS=-mod=mod GOPROXY=off GOSUMDB=off GOTOOLCHAIN=local
M=$WT/_mutant
[ -f $M/patch.diff ] || { echo "no patch in $M"; exit 2; }
cd /repo
git diff --quiet || { echo "/repo has local changes"; exit 2; }
git apply --check $M/patch.diff || { echo "patch does not apply to /repo HEAD"; exit 2; }
PKGDIR=$(python3 -c "import json;print(json.load(open('$M/meta.json'))['demo']['package_dir'])")
DEMO=$(ls $M/*_test.go | head -1)
RUNRE="($(grep -o 'func Test[A-Za-z0-9_]*' $DEMO | sed 's/func //' | paste -sd'|'))"
echo "== demo on unchanged tree (must pass)"
cp $DEMO /repo/$PKGDIR/zz_seeded_demo_test.go
go test -vet=off -count=1 -run "^$RUNRE\$" ./$PKGDIR/ 2>&1 | tail -3
echo "== applying patch"
git apply $M/patch.diff
go build ./... || echo "BUILD FAILED"
echo "== demo with patch (must fail)"
go test -vet=off -count=1 -run "^$RUNRE\$" ./$PKGDIR/ 2>&1 | grep -v "^I1003\|^E1003\|^W1003" | tail -5
rm -f /repo/$PKGDIR/zz_seeded_demo_test.go
echo "== quick check $ID with patch"
cd /verif
START=$(date +%s)
./bin/gosymex check $ID --no-evidence "$@" 2>&1 | cut -c1-400 | grep -v "^\[" | tail -8
echo "exit=$? elapsed=$(( $(date +%s) - START ))s"
cd /repo && git checkout -- . && git status --short | grep -v testdata
