#!/bin/bash
# Re-run every claimed quick check against /repo (rewrites evidence/*.json); prints one line per check.
cd /verif
ids=${*:-$(python3 -c "import json;print(' '.join(c['property_id'] for c in json.load(open('MANIFEST.json'))['checks']))")}
for id in $ids; do
  s=$(date +%s)
  out=$(VERIF_SEED=${VERIF_SEED:-1} ./bin/gosymex check $id --tier quick 2>&1)
  rc=$?
  echo "$id exit=$rc $(( $(date +%s) - s ))s $(echo "$out" | grep -c '^VIOLATION') violations $(echo "$out" | grep -c '^KNOWN-FINDING') known $(echo "$out" | grep -c '^INCONCLUSIVE\|^ENGINE-ERROR') problems"
  [ $rc -ne 0 ] && echo "$out" | grep '^VIOLATION\|^INCONCLUSIVE\|^ENGINE-ERROR' | cut -c1-300
done
exit 0
