#!/bin/bash
# usage: [BUDGET=<s per unit>] tools/vp_thorough.sh <workers> <ID>...   - validates thorough tiers one after the other in a vp background run (own /verif and /repo snapshots)
w=$1; shift
ids="$*"
vp run --with-repo -- bash -c 'export GOFLAGS=-mod=mod GOPROXY=off GOSUMDB=off GOTOOLCHAIN=local VERIF_ROOT=$PWD VERIF_REPO=$VP_RUN_REPO VERIF_THOROUGH_BUDGET_S='"${BUDGET:-0}"'; cd engine && go build -o ../bin/gosymex . && cd .. && for id in '"$ids"'; do s=$(date +%s); bin/gosymex check $id --tier thorough --workers '"$w"' --no-evidence > out.$id.log 2>&1; echo "$id exit=$? $(( $(date +%s) - s ))s"; grep "^VIOLATION\|^INCONCLUSIVE\|^ENGINE-ERROR\|^PARTIAL\|^KNOWN\|^OK\|^\[" out.$id.log | cut -c1-300; done'
