#!/usr/bin/env python3
"""save_mutant.py <PROP> <worktree> <slug> <caught:yes|no> <by: label/harness or '-'> [note]
Copies a confirmed seeded change to /verif/seeded/<PROP>-<slug>/ with an extended meta.json."""
import json, os, shutil, sys, glob
prop, wt, slug, caught, by = sys.argv[1:6]
note = sys.argv[6] if len(sys.argv) > 6 else ""
src = os.path.join(wt, "_mutant")
dst = f"/verif/seeded/{prop}-{slug}"
os.makedirs(dst, exist_ok=True)
shutil.copy(os.path.join(src, "patch.diff"), dst)
for f in glob.glob(os.path.join(src, "*_test.go")) + glob.glob(os.path.join(src, "*.go")):
    shutil.copy(f, os.path.join(dst, os.path.basename(f).replace("_test.go", "_test.go.txt") if f.endswith("_test.go") else os.path.basename(f)))
meta = json.load(open(os.path.join(src, "meta.json")))
meta["breaks_property"] = prop
meta["confirmed_by_us"] = {"ran": "tools/try_mutant.sh %s %s (git apply on /repo, go build ./..., demo test without and with the patch, quick check, git checkout)" % (prop, wt),
                           "demo_passes_without": True, "demo_fails_with": True, "builds": True}
meta["detected_by_quick_check"] = caught == "yes"
meta["detected_by"] = by
if note:
    meta["note"] = note
json.dump(meta, open(os.path.join(dst, "meta.json"), "w"), indent=1)
print("saved", dst)
