#!/bin/bash
# Runs the repository's pinned test suite (BASELINE.json cmd) on /repo and compares with the 495 stable tests.
export GOPROXY=off GOSUMDB=off GOTOOLCHAIN=local
out=${1:-/tmp/baseline.gotest.json}
: > $out
for m in $(cat /w/out/gomods.txt); do MF=$(cd /repo/$m && . /w/out/goenv.sh && gomodflag); (cd /repo/$m && go test $MF -json -vet=off -count=1 -timeout 25m ./... >> $out 2>/dev/null); done
python3 - "$out" <<'PY'
import json,sys,ast
b=json.load(open('/root/.vp/BASELINE.json'))
stable=b['stable_pass']
if isinstance(stable,str): stable=ast.literal_eval(stable)
res={}
for l in open(sys.argv[1]):
    try: e=json.loads(l)
    except: continue
    if e.get('Test') and e.get('Action') in('pass','fail','skip'):
        res[e['Package']+'::'+e['Test']]=e['Action']
bad=[t for t in stable if res.get(t)!='pass']
print('stable',len(stable),'passing now',len(stable)-len(bad),'not passing',bad[:20])
PY
rm -rf /repo/pkg/resmgr/cache/testdata
