package main

// File-system and encoder calls of pkg/resmgr/cache (C05, C10): the engine
// cannot perform real I/O, so these functions are redirected to a model that
// the HARNESS package defines in ordinary Go (harness/cache_core/fsmodel.go):
// a call of os.Lstat(path) becomes a call of the harness function
// verifFSLstat(path) with the same signature, and so on. The model is
// therefore interpreted like any other code, may use the harness API
// (solver-chosen failures and partial writes), and is part of the claim.
//
// A harness package that does not define the model function gets whatever
// was registered for the call before (ext_c18.go's "error" stubs), else the
// configured stub if there is one, else the path ends as UNSUPPORTED,
// exactly as before this file existed.

import (
	"fmt"
	"go/token"
)

var harnessModels = map[string]string{
	"os.Lstat":              "verifFSLstat",
	"os.Stat":               "verifFSStat",
	"os.MkdirAll":           "verifFSMkdirAll",
	"os.WriteFile":          "verifFSWriteFile",
	"os.ReadFile":           "verifFSReadFile",
	"os.Rename":             "verifFSRename",
	"os.RemoveAll":          "verifFSRemoveAll",
	"encoding/json.Marshal": "verifJSONMarshal",
	"encoding/json.Unmarshal": "verifJSONUnmarshal",
}

func harnessDispatch(key, model string, prev externalFn) externalFn {
	return func(fr *frame, args []value) value {
		fn := fr.i.lp.harnessPkg.Func(model)
		if fn == nil {
			// not a harness with a file-system model: behave as if this file did
			// not exist (ext_c18.go registers "error" stubs for some of the keys)
			if prev != nil {
				return prev(fr, args)
			}
			if st, ok := fr.i.lp.cfg.stubs[key]; ok && fr.fn != nil {
				if st == "error" {
					return extErrorStub(key)(fr, args)
				}
				return makeStub(fr.fn, st)(fr, args)
			}
			panic(unsupported{"no code for function: " + key + " (real I/O; the harness package defines no model " + model + ")"})
		}
		return call(fr.i, fr, token.NoPos, fn, args)
	}
}

// This init must run after those of other ext_*.go files registering the
// same keys (Go runs init functions of a package in file-name order:
// ext_c18.go < ext_cache.go); whatever was registered before is kept as the
// fallback for harness packages without a model.
func init() {
	for key, model := range harnessModels {
		externals[key] = harnessDispatch(key, model, externals[key])
	}
}

// ---- *os.File over the harness file-system model: a model handle is kept in
// the interpreter's ghost state, keyed by the (interpreter) address of the
// os.File object handed to the code under test.

func osFileHandle(fr *frame, f value) value {
	p, ok := f.(*value)
	if !ok || p == nil {
		nilDeref()
	}
	h, ok := fr.i.ghost[fmt.Sprintf("osfile:%p", p)]
	if !ok {
		panic(unsupported{"operation on an *os.File that was not opened through the file-system model"})
	}
	return h
}

func modelCall(fr *frame, model string, args ...value) value {
	fn := fr.i.lp.harnessPkg.Func(model)
	if fn == nil {
		panic(unsupported{"real file I/O (the harness package defines no model " + model + ")"})
	}
	return call(fr.i, fr, token.NoPos, fn, args)
}

func init() {
	openFile := func(fr *frame, name, flag, perm value) value {
		res := modelCall(fr, "verifFSOpenFile", name, flag, perm).(tuple)
		if e := res[1].(iface); e.t != nil {
			return tuple{(*value)(nil), e}
		}
		osPkg := fr.i.prog.ImportedPackage("os")
		var cell value = zero(osPkg.Type("File").Type())
		p := &cell
		fr.i.ghost[fmt.Sprintf("osfile:%p", p)] = res[0]
		return tuple{p, iface{}}
	}
	externals["os.OpenFile"] = func(fr *frame, a []value) value { return openFile(fr, a[0], a[1], a[2]) }
	externals["os.Create"] = func(fr *frame, a []value) value {
		return openFile(fr, a[0], int(0x242) /* O_RDWR|O_CREATE|O_TRUNC */, uint32(0o666))
	}
	externals["(*os.File).Write"] = func(fr *frame, a []value) value {
		return modelCall(fr, "verifFSFileWrite", osFileHandle(fr, a[0]), a[1])
	}
	externals["(*os.File).WriteString"] = func(fr *frame, a []value) value {
		return modelCall(fr, "verifFSFileWrite", osFileHandle(fr, a[0]), []value(bytesOf(a[1])))
	}
	externals["(*os.File).Sync"] = func(fr *frame, a []value) value {
		return modelCall(fr, "verifFSFileSync", osFileHandle(fr, a[0]))
	}
	externals["(*os.File).Close"] = func(fr *frame, a []value) value {
		return modelCall(fr, "verifFSFileClose", osFileHandle(fr, a[0]))
	}
}
