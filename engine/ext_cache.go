package main

// File-system and encoder calls of pkg/resmgr/cache (C05, C10): the engine
// cannot perform real I/O, so these functions are redirected to a model that
// the HARNESS package defines in ordinary Go (harness/cache_core/fsmodel.go):
// a call of os.Lstat(path) becomes a call of the harness function
// verifFSLstat(path) with the same signature, and so on. The model is
// therefore interpreted like any other code, may use the harness API
// (solver-chosen failures and partial writes), and is part of the claim.
//
// A harness package that does not define the model function gets the
// configured stub for the call if there is one, else the path ends as
// UNSUPPORTED, exactly as before this file existed.

import (
	"go/token"
)

var harnessModels = map[string]string{
	"os.Lstat":              "verifFSLstat",
	"os.Stat":               "verifFSStat",
	"os.MkdirAll":           "verifFSMkdirAll",
	"os.WriteFile":          "verifFSWriteFile",
	"os.ReadFile":           "verifFSReadFile",
	"os.Rename":             "verifFSRename",
	"os.RemoveAll":          "verifFSRemoveAll",
	"encoding/json.Marshal": "verifJSONMarshal",
}

func harnessDispatch(key, model string) externalFn {
	return func(fr *frame, args []value) value {
		fn := fr.i.lp.harnessPkg.Func(model)
		if fn == nil {
			if st, ok := fr.i.lp.cfg.stubs[key]; ok && fr.fn != nil {
				return makeStub(fr.fn, st)(fr, args)
			}
			panic(unsupported{"no code for function: " + key + " (real I/O; the harness package defines no model " + model + ")"})
		}
		return call(fr.i, fr, token.NoPos, fn, args)
	}
}

func init() {
	for key, model := range harnessModels {
		externals[key] = harnessDispatch(key, model)
	}
}
