// Copyright 2013 The Go Authors. All rights reserved.
// Use of this source code is governed by a BSD-style
// license that can be found in the LICENSE file (LICENSE.x-tools).
//
// This file derives from golang.org/x/tools/go/ssa/interp (v0.29.0),
// modified into a mixed concrete/symbolic executor: scalars may be SMT
// terms, branches on symbolic conditions fork by deterministic
// re-execution, maps are ordered, target runtime panics are explicit.

package main

import (
	"fmt"
	"go/token"
	"go/types"
	"os"
	"runtime"
	"slices"
	"strings"
	"sync"

	"golang.org/x/tools/go/ssa"
)

type continuation int

const (
	kNext continuation = iota
	kReturn
	kJump
)

type methodSet map[string]*ssa.Function

// loadedProgram is shared (read-only) between workers.
type loadedProgram struct {
	prog               *ssa.Program
	sizes              types.Sizes
	runtimeErrorString types.Type
	extCache           sync.Map // *ssa.Function -> externalFn (or nil)
	cfg                *runConfig
	harnessPkg         *ssa.Package
	noopIfaces         map[string]bool
	initAllowed        func(path string) bool
}

// interpreter is the per-path state.
type interpreter struct {
	lp       *loadedProgram
	prog     *ssa.Program
	globals  map[*ssa.Global]*value
	ex       *explorer
	sol      *Solver
	path     *pathState
	vector   map[string]string // concrete mode: nondet values
	concreteEvents []string
	simulate bool // concrete vector, but the harness takes its engine-side branches
	funcsSeen map[string]bool
	maxBackEdges int
	initDone map[*ssa.Package]bool
	initFailed []string
	clock    int64
	ghost    map[string]value
	pendingGo []pendingGo
	goDepth   int
	parkedOn  map[*channel]bool
	depth    int
	maxSteps int64
	tracing  bool
	inInit   int
}

func newInterpreter(lp *loadedProgram, ex *explorer, sol *Solver) *interpreter {
	return &interpreter{lp: lp, prog: lp.prog, globals: map[*ssa.Global]*value{}, ex: ex, sol: sol,
		funcsSeen: map[string]bool{}, initDone: map[*ssa.Package]bool{}, ghost: map[string]value{},
		maxSteps: lp.cfg.maxSteps, tracing: lp.cfg.trace}
}

type deferred struct {
	fn    value
	args  []value
	instr *ssa.Defer
	tail  *deferred
}

type frame struct {
	i                *interpreter
	caller           *frame
	fn               *ssa.Function
	block, prevBlock *ssa.BasicBlock
	env              map[ssa.Value]value // dynamic values of SSA variables
	locals           []value
	defers           *deferred
	result           value
	panicking        bool
	panic            interface{}
	phitemps         []value // temporaries for parallel phi assignment
	backEdges        int
	isPkgInit        bool
	phisDone         bool
	cur              ssa.Instruction
}

// protectedInitCall runs one call made directly by a package initializer;
// if it cannot be executed (unsupported code, panic) the result is the zero
// value and initialization continues with the next statement. Package-level
// state is therefore initialized on a best-effort basis; whatever a harness
// depends on and is not initialized shows up as a native-replay mismatch,
// never as a reported violation.
func protectedInitCall(fr *frame, instr *ssa.Call, fn value, args []value) (res value) {
	i := fr.i
	saved := i.depth
	defer func() {
		if p := recover(); p != nil {
			if pe, ok := p.(pathEnd); ok {
				panic(pe)
			}
			i.depth = saved
			i.initFailed = append(i.initFailed, fmt.Sprintf("%s: %s", fr.fn.Pkg.Pkg.Path(), describePanic(p)))
			if i.lp.cfg.verbose {
				fmt.Fprintf(stderr, "init of %s: skipped %s: %v\n", fr.fn.Pkg.Pkg.Path(), instr, describePanic(p))
			}
			res = zeroResults(instr.Call.Signature())
		}
	}()
	i.inInit++
	defer func() { i.inInit-- }()
	return call(i, fr, instr.Pos(), fn, args)
}

func (i *interpreter) global(g *ssa.Global) *value {
	if r, ok := i.globals[g]; ok {
		return r
	}
	cell := zero(mustDeref(g.Type()))
	i.globals[g] = &cell
	return &cell
}

func mustDeref(t types.Type) types.Type {
	if p, ok := t.Underlying().(*types.Pointer); ok {
		return p.Elem()
	}
	panic(fmt.Sprintf("mustDeref: %v is not a pointer", t))
}

func (fr *frame) get(key ssa.Value) value {
	switch key := key.(type) {
	case nil:
		// Hack; simplifies handling of optional attributes
		// such as ssa.Slice.{Low,High}.
		return nil
	case *ssa.Function, *ssa.Builtin:
		return key
	case *ssa.Const:
		return constValue(key)
	case *ssa.Global:
		fr.i.ensureInit(key.Pkg)
		return fr.i.global(key)
	}
	if r, ok := fr.env[key]; ok {
		return r
	}
	panic(fmt.Sprintf("get: no value for %T: %v", key, key.Name()))
}

func isEnginePanic(p interface{}) bool {
	switch p.(type) {
	case pathEnd, unsupported, unwindExceeded:
		return true
	case targetPanic:
		return false
	}
	// Anything else (Go runtime errors, strings) is an engine defect and must
	// not be visible to the target's recover().
	return true
}

// runDefer runs a deferred call d.
// It always returns normally, but may set or clear fr.panic.
func (fr *frame) runDefer(d *deferred) {
	var ok bool
	defer func() {
		if !ok {
			// Deferred call created a new state of panic.
			p := recover()
			if isEnginePanic(p) {
				panic(p)
			}
			fr.panicking = true
			fr.panic = p
		}
	}()
	call(fr.i, fr, d.instr.Pos(), d.fn, d.args)
	ok = true
}

// runDefers executes fr's deferred function calls in LIFO order.
func (fr *frame) runDefers() {
	for d := fr.defers; d != nil; d = d.tail {
		fr.runDefer(d)
	}
	fr.defers = nil
	if fr.panicking {
		panic(fr.panic) // new panic, or still panicking
	}
}

// lookupMethod returns the method set for type typ.
func lookupMethod(i *interpreter, typ types.Type, meth *types.Func) *ssa.Function {
	return i.prog.LookupMethod(typ, meth.Pkg(), meth.Name())
}

func nilDeref() { panic(targetPanic{v: rtError("invalid memory address or nil pointer dereference")}) }

// visitInstr interprets a single ssa.Instruction within the activation
// record frame.  It returns a continuation value indicating where to
// read the next instruction from.
func visitInstr(fr *frame, instr ssa.Instruction) continuation {
	i := fr.i
	i.path.steps++
	if i.path.steps > i.maxSteps {
		panic(unwindExceeded{fmt.Sprintf("step budget %d exceeded in %s", i.maxSteps, fr.fn)})
	}
	switch instr := instr.(type) {
	case *ssa.DebugRef:
		// no-op

	case *ssa.UnOp:
		fr.env[instr] = unop(i, instr, fr.get(instr.X))

	case *ssa.BinOp:
		fr.env[instr] = binop(i, instr.Op, instr.X.Type(), fr.get(instr.X), fr.get(instr.Y))

	case *ssa.Call:
		fn, args, skip := prepareCall(fr, &instr.Call)
		if skip {
			fr.env[instr] = zeroResults(instr.Call.Signature())
		} else if fr.isPkgInit {
			fr.env[instr] = protectedInitCall(fr, instr, fn, args)
		} else {
			fr.env[instr] = call(fr.i, fr, instr.Pos(), fn, args)
		}

	case *ssa.ChangeInterface:
		fr.env[instr] = fr.get(instr.X)

	case *ssa.ChangeType:
		fr.env[instr] = fr.get(instr.X) // (can't fail)

	case *ssa.Convert:
		fr.env[instr] = conv(i, instr.Type(), instr.X.Type(), fr.get(instr.X))

	case *ssa.SliceToArrayPointer:
		fr.env[instr] = sliceToArrayPointer(instr.Type(), instr.X.Type(), fr.get(instr.X))

	case *ssa.MakeInterface:
		fr.env[instr] = iface{t: instr.X.Type(), v: fr.get(instr.X)}

	case *ssa.Extract:
		fr.env[instr] = fr.get(instr.Tuple).(tuple)[instr.Index]

	case *ssa.Slice:
		fr.env[instr] = slice(i, fr.get(instr.X), fr.get(instr.Low), fr.get(instr.High), fr.get(instr.Max))

	case *ssa.Return:
		switch len(instr.Results) {
		case 0:
		case 1:
			fr.result = fr.get(instr.Results[0])
		default:
			var res []value
			for _, r := range instr.Results {
				res = append(res, fr.get(r))
			}
			fr.result = tuple(res)
		}
		fr.block = nil
		return kReturn

	case *ssa.RunDefers:
		fr.runDefers()

	case *ssa.Panic:
		panic(targetPanic{v: fr.get(instr.X)})

	case *ssa.Send:
		chanSend(i, fr.get(instr.Chan), fr.get(instr.X))

	case *ssa.Store:
		addr := fr.get(instr.Addr).(*value)
		if addr == nil {
			nilDeref()
		}
		store(mustDeref(instr.Addr.Type()), addr, fr.get(instr.Val))

	case *ssa.If:
		c := fr.get(instr.Cond)
		if sv, ok := c.(symv); ok && fr.tryMergeDiamond(sv.e) {
			return kJump
		}
		succ := 1
		if i.concBool(c) {
			succ = 0
		}
		fr.jump(fr.block.Succs[succ])
		return kJump

	case *ssa.Jump:
		fr.jump(fr.block.Succs[0])
		return kJump

	case *ssa.Defer:
		fn, args, skip := prepareCall(fr, &instr.Call)
		if skip {
			break
		}
		defers := &fr.defers
		if into := fr.get(instr.DeferStack); into != nil {
			defers = into.(**deferred)
		}
		*defers = &deferred{
			fn:    fn,
			args:  args,
			instr: instr,
			tail:  *defers,
		}

	case *ssa.Go:
		fn, args, skip := prepareCall(fr, &instr.Call)
		if skip {
			break
		}
		goStmt(i, fr, instr, fn, args)

	case *ssa.MakeChan:
		fr.env[instr] = makeChan(i.concInt(fr.get(instr.Size)))

	case *ssa.Alloc:
		var addr *value
		if instr.Heap {
			// new
			addr = new(value)
			fr.env[instr] = addr
		} else {
			// local
			addr = fr.env[instr].(*value)
		}
		*addr = zero(mustDeref(instr.Type()))

	case *ssa.MakeSlice:
		c := i.concInt(fr.get(instr.Cap))
		l := i.concInt(fr.get(instr.Len))
		if l < 0 || c < l || c > 1<<24 {
			panic(targetPanic{v: rtError("makeslice: len out of range")})
		}
		slice := make([]value, c)
		tElt := instr.Type().Underlying().(*types.Slice).Elem()
		for i := range slice {
			slice[i] = zero(tElt)
		}
		fr.env[instr] = slice[:l]

	case *ssa.MakeMap:
		fr.env[instr] = makeMap(instr.Type().Underlying().(*types.Map).Key(), 0)

	case *ssa.Range:
		fr.env[instr] = rangeIter(i, fr.get(instr.X), instr.X.Type())

	case *ssa.Next:
		fr.env[instr] = fr.get(instr.Iter).(iter).next()

	case *ssa.FieldAddr:
		p := fr.get(instr.X).(*value)
		if p == nil {
			nilDeref()
		}
		fr.env[instr] = &(*p).(structure)[instr.Field]

	case *ssa.Field:
		fr.env[instr] = fr.get(instr.X).(structure)[instr.Field]

	case *ssa.IndexAddr:
		x := fr.get(instr.X)
		idx := i.concInt(fr.get(instr.Index))
		switch x := x.(type) {
		case []value:
			if idx < 0 || idx >= int64(len(x)) {
				panic(targetPanic{v: rtError(fmt.Sprintf("index out of range [%d] with length %d", idx, len(x)))})
			}
			fr.env[instr] = &x[idx]
		case *value: // *array
			if x == nil {
				nilDeref()
			}
			a := (*x).(array)
			if idx < 0 || idx >= int64(len(a)) {
				panic(targetPanic{v: rtError(fmt.Sprintf("index out of range [%d] with length %d", idx, len(a)))})
			}
			fr.env[instr] = &a[idx]
		default:
			panic(fmt.Sprintf("unexpected x type in IndexAddr: %T", x))
		}

	case *ssa.Index:
		x := fr.get(instr.X)
		idx := i.concInt(fr.get(instr.Index))
		var n int
		switch x := x.(type) {
		case array:
			n = len(x)
		case string:
			n = len(x)
		case symstr:
			n = len(x)
		default:
			panic(fmt.Sprintf("unexpected x type in Index: %T", x))
		}
		if idx < 0 || idx >= int64(n) {
			panic(targetPanic{v: rtError(fmt.Sprintf("index out of range [%d] with length %d", idx, n))})
		}
		switch x := x.(type) {
		case array:
			fr.env[instr] = x[idx]
		case string:
			fr.env[instr] = x[idx]
		case symstr:
			fr.env[instr] = x[idx]
		}

	case *ssa.Lookup:
		fr.env[instr] = lookup(i, instr, fr.get(instr.X), fr.get(instr.Index))

	case *ssa.MapUpdate:
		m := fr.get(instr.Map).(*omap)
		if m == nil {
			panic(targetPanic{v: rtError("assignment to entry in nil map")})
		}
		m.insert(i, fr.get(instr.Key), fr.get(instr.Value))

	case *ssa.TypeAssert:
		fr.env[instr] = typeAssert(fr.i, instr, fr.get(instr.X).(iface))

	case *ssa.MakeClosure:
		var bindings []value
		for _, binding := range instr.Bindings {
			bindings = append(bindings, fr.get(binding))
		}
		fr.env[instr] = &closure{Fn: instr.Fn.(*ssa.Function), Env: bindings}

	case *ssa.Phi:
		panic("unreachable") // phis are processed at block entry

	case *ssa.Select:
		fr.env[instr] = selectStmt(i, fr, instr)

	default:
		panic(fmt.Sprintf("unexpected instruction: %T", instr))
	}

	return kNext
}

func (fr *frame) jump(to *ssa.BasicBlock) {
	if to.Index <= fr.block.Index {
		fr.backEdges++
		if fr.backEdges > fr.i.maxBackEdges {
			fr.i.maxBackEdges = fr.backEdges
		}
		if fr.backEdges > fr.i.lp.cfg.unwind && fr.i.inInit == 0 {
			panic(unwindExceeded{fmt.Sprintf("unwind budget %d exceeded in %s", fr.i.lp.cfg.unwind, fr.fn)})
		}
	}
	fr.prevBlock, fr.block = fr.block, to
}

func zeroResults(sig *types.Signature) value {
	switch sig.Results().Len() {
	case 0:
		return nil
	case 1:
		return zero(sig.Results().At(0).Type())
	}
	return zero(sig.Results())
}

// prepareCall determines the function value and argument values for a
// function call in a Call, Go or Defer instruction, performing
// interface method lookup if needed.  skip is true for calls through
// interfaces configured as no-ops (loggers).
func prepareCall(fr *frame, call *ssa.CallCommon) (fn value, args []value, skip bool) {
	v := fr.get(call.Value)
	if call.Method == nil {
		// Function call.
		fn = v
	} else {
		// Interface method invocation.
		if fr.i.lp.noopIfaces[call.Value.Type().String()] {
			for _, arg := range call.Args {
				fr.get(arg)
			}
			return nil, nil, true
		}
		recv := v.(iface)
		if recv.t == nil {
			panic(targetPanic{v: rtError("invalid memory address or nil pointer dereference (method call on nil interface)")})
		}
		if f := lookupMethod(fr.i, recv.t, call.Method); f == nil {
			// Unreachable in well-typed programs.
			panic(fmt.Sprintf("method set for dynamic type %v does not contain %s", recv.t, call.Method))
		} else {
			fn = f
		}
		args = append(args, recv.v)
	}
	for _, arg := range call.Args {
		args = append(args, fr.get(arg))
	}
	return
}

// call interprets a call to a function (function, builtin or closure)
// fn with arguments args, returning its result.
// callpos is the position of the callsite.
func call(i *interpreter, caller *frame, callpos token.Pos, fn value, args []value) value {
	switch fn := fn.(type) {
	case *ssa.Function:
		if fn == nil {
			panic(targetPanic{v: rtError("invalid memory address or nil pointer dereference (call of nil func)")})
		}
		return callSSA(i, caller, callpos, fn, args, nil)
	case *closure:
		if fn == nil {
			panic(targetPanic{v: rtError("invalid memory address or nil pointer dereference (call of nil func)")})
		}
		if fn.ext != nil {
			return fn.ext(&frame{i: i, caller: caller}, args)
		}
		return callSSA(i, caller, callpos, fn.Fn, args, fn.Env)
	case *ssa.Builtin:
		return callBuiltin(caller, callpos, fn, args)
	}
	panic(fmt.Sprintf("cannot call %T", fn))
}

func loc(fset *token.FileSet, pos token.Pos) string {
	if pos == token.NoPos {
		return ""
	}
	return " at " + fset.Position(pos).String()
}

// callSSA interprets a call to function fn with arguments args,
// and lexical environment env, returning its result.
// callpos is the position of the callsite.
func callSSA(i *interpreter, caller *frame, callpos token.Pos, fn *ssa.Function, args []value, env []value) value {
	if i.tracing {
		fmt.Fprintf(os.Stderr, "%*sEntering %s\n", i.depth, "", fn)
		defer fmt.Fprintf(os.Stderr, "%*sLeaving %s\n", i.depth, "", fn)
	}
	i.depth++
	defer func() { i.depth-- }()
	if i.depth > 400 {
		panic(unwindExceeded{"call depth 400 exceeded at " + fn.String()})
	}
	fr := &frame{
		i:      i,
		caller: caller, // for panic/recover
		fn:     fn,
	}
	if fn.Parent() == nil {
		if ext := i.lp.resolveExternal(fn); ext != nil {
			return ext(fr, args)
		}
		if fn.Blocks == nil {
			if fn.Synthetic != "" && fn.Pkg == nil {
				// wrappers/thunks are built lazily by the program
			}
			panic(unsupported{"no code for function: " + fn.String()})
		}
	}
	if fn.Synthetic == "package initializer" {
		if caller != nil {
			// nested initializer call: only configured packages are initialized
			i.ensureInit(fn.Pkg)
			return nil
		}
		fr.isPkgInit = true
	}
	if fn.Pkg != nil {
		i.ensureInit(fn.Pkg)
		if strings.HasPrefix(fn.Pkg.Pkg.Path(), i.lp.cfg.repoModule) {
			i.funcsSeen[fn.String()] = true
		}
	}

	// generic function body?
	if fn.TypeParams().Len() > 0 && len(fn.TypeArgs()) == 0 {
		panic("interp requires ssa.BuilderMode to include InstantiateGenerics to execute generics")
	}

	fr.env = make(map[ssa.Value]value)
	fr.block = fn.Blocks[0]
	fr.locals = make([]value, len(fn.Locals))
	for i, l := range fn.Locals {
		fr.locals[i] = zero(mustDeref(l.Type()))
		fr.env[l] = &fr.locals[i]
	}
	for i, p := range fn.Params {
		fr.env[p] = args[i]
	}
	for i, fv := range fn.FreeVars {
		fr.env[fv] = env[i]
	}
	for fr.block != nil {
		runFrame(fr)
	}
	return fr.result
}

// runFrame executes SSA instructions starting at fr.block and
// continuing until a return, a panic, or a recovered panic.
func runFrame(fr *frame) {
	defer func() {
		if fr.block == nil {
			return // normal return
		}
		p := recover()
		if tp, ok := p.(targetPanic); ok && tp.where == "" {
			tp.where = fr.fn.String()
			if fr.cur != nil {
				tp.where += " (" + fr.i.prog.Fset.Position(fr.cur.Pos()).String() + ")"
			}
			p = tp
		}
		if isEnginePanic(p) {
			if re, ok := p.(runtime.Error); ok {
				// annotate engine defects with the target location
				panic(engineDefect{fmt.Sprintf("%v in %s", re, fr.fn), stackTrace()})
			}
			panic(p)
		}
		fr.panicking = true
		fr.panic = p
		fr.runDefers()
		fr.block = fr.fn.Recover
	}()

	for {
		nonPhis := executePhis(fr)
		for _, instr := range nonPhis {
			if fr.i.tracing {
				if v, ok := instr.(ssa.Value); ok {
					fmt.Fprintln(os.Stderr, "\t", v.Name(), "=", instr)
				} else {
					fmt.Fprintln(os.Stderr, "\t", instr)
				}
			}
			fr.cur = instr
			if visitInstr(fr, instr) == kReturn {
				return
			}
			// Inv: kNext (continue) or kJump (last instr)
		}
	}
}

type engineDefect struct {
	msg   string
	stack string
}

func stackTrace() string {
	buf := make([]byte, 1<<14)
	n := runtime.Stack(buf, false)
	return string(buf[:n])
}

// pureBlock reports whether b consists only of side-effect-free scalar
// instructions that cannot panic, followed by a jump.
func pureBlock(b *ssa.BasicBlock) bool {
	for k, instr := range b.Instrs {
		switch in := instr.(type) {
		case *ssa.DebugRef:
		case *ssa.BinOp:
			switch in.Op {
			case token.QUO, token.REM, token.SHL, token.SHR:
				return false
			}
			if _, ok := in.X.Type().Underlying().(*types.Basic); !ok {
				return false
			}
		case *ssa.UnOp:
			if in.Op == token.MUL || in.Op == token.ARROW {
				return false
			}
		case *ssa.Convert:
			bs, ok1 := in.X.Type().Underlying().(*types.Basic)
			bd, ok2 := in.Type().Underlying().(*types.Basic)
			if !ok1 || !ok2 || bs.Info()&types.IsString != 0 || bd.Info()&types.IsString != 0 {
				return false
			}
		case *ssa.Jump:
			return k == len(b.Instrs)-1
		default:
			return false
		}
	}
	return false
}

// tryMergeDiamond handles `if c` whose arms are pure blocks (or empty) that
// rejoin immediately: instead of forking, the phis of the join block become
// ite terms. Used for &&, ||, min/max- and abs-style code.
func (fr *frame) tryMergeDiamond(c *Expr) bool {
	b := fr.block
	T, F := b.Succs[0], b.Succs[1]
	var J *ssa.BasicBlock
	var predT, predF *ssa.BasicBlock // predecessor of J on each side
	simple := func(x *ssa.BasicBlock) bool {
		return len(x.Preds) == 1 && len(x.Succs) == 1 && pureBlock(x)
	}
	switch {
	case simple(T) && T.Succs[0] == F:
		J, predT, predF = F, T, b
	case simple(F) && F.Succs[0] == T:
		J, predT, predF = T, b, F
	case simple(T) && simple(F) && T.Succs[0] == F.Succs[0]:
		J, predT, predF = T.Succs[0], T, F
	default:
		return false
	}
	if J == b || J.Index <= b.Index {
		return false
	}
	// speculatively evaluate the pure arms
	for _, arm := range []*ssa.BasicBlock{predT, predF} {
		if arm == b {
			continue
		}
		for _, instr := range arm.Instrs {
			if _, ok := instr.(*ssa.Jump); ok {
				break
			}
			fr.i.path.steps++
			switch in := instr.(type) {
			case *ssa.BinOp:
				fr.env[in] = binop(fr.i, in.Op, in.X.Type(), fr.get(in.X), fr.get(in.Y))
			case *ssa.UnOp:
				fr.env[in] = unop(fr.i, in, fr.get(in.X))
			case *ssa.Convert:
				fr.env[in] = conv(fr.i, in.Type(), in.X.Type(), fr.get(in.X))
			}
		}
	}
	iT, iF := slices.Index(J.Preds, predT), slices.Index(J.Preds, predF)
	if iT < 0 || iF < 0 {
		return false
	}
	var phis []*ssa.Phi
	var vals []value
	for _, instr := range J.Instrs {
		phi, ok := instr.(*ssa.Phi)
		if !ok {
			break
		}
		vt, vf := fr.get(phi.Edges[iT]), fr.get(phi.Edges[iF])
		kt, ok1 := kindOf(vt)
		kf, ok2 := kindOf(vf)
		if !ok1 || !ok2 || kt != kf {
			return false
		}
		phis = append(phis, phi)
		vals = append(vals, fromExpr(mkIte(c, toExpr(vt), toExpr(vf)), kt))
	}
	for k, phi := range phis {
		fr.env[phi] = vals[k]
	}
	fr.prevBlock, fr.block = b, J
	fr.phisDone = true
	return true
}

// executePhis executes the phi-nodes at the start of the current
// block and returns the non-phi instructions.
func executePhis(fr *frame) []ssa.Instruction {
	if fr.phisDone {
		fr.phisDone = false
		for k, instr := range fr.block.Instrs {
			if _, ok := instr.(*ssa.Phi); !ok {
				return fr.block.Instrs[k:]
			}
		}
	}
	firstNonPhi := -1
	for i, instr := range fr.block.Instrs {
		if _, ok := instr.(*ssa.Phi); !ok {
			firstNonPhi = i
			break
		}
	}
	// Inv: 0 <= firstNonPhi; every block contains a non-phi.

	nonPhis := fr.block.Instrs[firstNonPhi:]
	if firstNonPhi > 0 {
		phis := fr.block.Instrs[:firstNonPhi]
		predIndex := slices.Index(fr.block.Preds, fr.prevBlock)
		fr.phitemps = fr.phitemps[:0]
		for _, phi := range phis {
			phi := phi.(*ssa.Phi)
			fr.phitemps = append(fr.phitemps, fr.get(phi.Edges[predIndex]))
		}
		for i, phi := range phis {
			fr.env[phi.(*ssa.Phi)] = fr.phitemps[i]
		}
	}
	return nonPhis
}

// doRecover implements the recover() built-in.
func doRecover(caller *frame) value {
	// recover() must be exactly one level beneath the deferred
	// function (two levels beneath the panicking function) to
	// have any effect.  Thus we ignore both "defer recover()" and
	// "defer f() -> g() -> recover()".
	if caller != nil && !caller.panicking &&
		caller.caller != nil && caller.caller.panicking {
		caller.caller.panicking = false
		p := caller.caller.panic
		caller.caller.panic = nil

		switch p := p.(type) {
		case targetPanic:
			if re, ok := p.v.(rtError); ok {
				return iface{caller.i.lp.runtimeErrorString, re.String()}
			}
			// The target program explicitly called panic().
			return p.v
		default:
			panic(fmt.Sprintf("unexpected panic type %T in target call to recover()", p))
		}
	}
	return iface{}
}

// ensureInit runs the package initializer of pkg (once per path) if the
// configuration allows it; initializers of other packages are skipped.
func (i *interpreter) ensureInit(pkg *ssa.Package) {
	if pkg == nil || i.initDone[pkg] {
		return
	}
	i.initDone[pkg] = true
	if !i.lp.initAllowed(pkg.Pkg.Path()) {
		return
	}
	initFn := pkg.Func("init")
	if initFn == nil || initFn.Blocks == nil {
		return
	}
	func() {
		defer func() {
			if p := recover(); p != nil {
				switch p := p.(type) {
				case pathEnd:
					panic(p)
				case unwindExceeded:
					panic(p)
				}
				i.initFailed = append(i.initFailed, fmt.Sprintf("%s: %v", pkg.Pkg.Path(), describePanic(p)))
				if i.lp.cfg.verbose {
					fmt.Fprintf(stderr, "init of %s failed: %v\n", pkg.Pkg.Path(), describePanic(p))
				}
			}
		}()
		saved := i.depth
		defer func() { i.depth = saved }()
		i.inInit++
		defer func() { i.inInit-- }()
		callSSA(i, nil, token.NoPos, initFn, nil, nil)
	}()
}

func describePanic(p interface{}) string {
	switch p := p.(type) {
	case targetPanic:
		return "target panic: " + panicString(p.v)
	case unsupported:
		return "unsupported: " + p.msg
	case unwindExceeded:
		return "unwind: " + p.where
	case pathEnd:
		return "path end: " + p.reason
	case engineDefect:
		return "engine defect: " + p.msg
	}
	return fmt.Sprintf("%T: %v", p, p)
}

func panicString(v value) string {
	switch v := v.(type) {
	case rtError:
		return v.String()
	case iface:
		if s, ok := v.v.(string); ok {
			return fmt.Sprintf("%q", s)
		}
		if v.t != nil {
			return fmt.Sprintf("(%s) %s", v.t, toString(v.v))
		}
	}
	return toString(v)
}

// runHarness runs the harness entry function on the current path.
func (i *interpreter) runHarness(entry string) (status pathStatus, detail string) {
	fn := i.lp.harnessPkg.Func(entry)
	if fn == nil {
		return stEngineError, "no harness function " + entry
	}
	defer func() {
		p := recover()
		if p == nil {
			return
		}
		switch p := p.(type) {
		case pathEnd:
			switch p.reason {
			case "assume":
				status = stAssumeFalse
			case "infeasible":
				status = stInfeasible
			default:
				status = stDone
			}
			detail = p.reason
		case unsupported:
			status, detail = stUnsupported, p.msg
		case unwindExceeded:
			status, detail = stUnwind, p.where
		case targetPanic:
			status, detail = stPanic, panicString(p.v)
			if p.where != "" && i.lp.cfg.verbose {
				fmt.Fprintf(stderr, "target panic %s at %s\n", detail, p.where)
			}
			if i.vector != nil {
				i.concreteEvents = append(i.concreteEvents, "panic "+detail)
				return
			}
			// an escaped target panic is an assertion failure of the harness
			func() {
				defer func() {
					if q := recover(); q != nil {
						if _, ok := q.(pathEnd); !ok {
							status, detail = stEngineError, describePanic(q)
						}
					}
				}()
				i.checkAssert("panic", falseE, "panic", detail)
			}()
		case engineDefect:
			status, detail = stEngineError, p.msg
			if i.lp.cfg.verbose {
				fmt.Fprintln(stderr, p.stack)
			}
		default:
			status, detail = stEngineError, fmt.Sprintf("%T: %v", p, p)
			if i.lp.cfg.verbose {
				fmt.Fprintln(stderr, stackTrace())
			}
		}
	}()
	callSSA(i, nil, token.NoPos, fn, nil, nil)
	return stDone, ""
}
