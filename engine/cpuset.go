package main

// Model of k8s.io/utils/cpuset.CPUSet: a membership bit vector over CPU ids
// 0..cpusetWidth-1. Every function and method of the package is intercepted,
// so the real map-based representation is never observed by executed code.

import (
	"fmt"
	"go/types"
	"math/bits"
	"strconv"
	"strings"
)

const cpusetWidth = 64

type cpusetv struct{ bits *Expr }

func isCPUSetType(t *types.Named) bool {
	o := t.Obj()
	return o.Name() == "CPUSet" && o.Pkg() != nil && o.Pkg().Path() == "k8s.io/utils/cpuset"
}

func asCPUSet(v value) cpusetv {
	switch v := v.(type) {
	case cpusetv:
		return v
	case structure: // zero value built before the model was consulted
		return cpusetv{bvConst(cpusetWidth, 0)}
	}
	panic(fmt.Sprintf("asCPUSet: %T", v))
}

func cpuBit(i *interpreter, cpu value) *Expr {
	if sv, ok := cpu.(symv); ok {
		e := bvResize(sv.e, cpusetWidth, true)
		if i.branch(mkOr(bvCmp("bvslt", e, bvConst(cpusetWidth, 0)), bvCmp("bvsge", e, bvConst(cpusetWidth, cpusetWidth)))) {
			panic(unsupported{"cpuset model: symbolic CPU id outside 0..63"})
		}
		return bvBin("bvshl", bvConst(cpusetWidth, 1), e)
	}
	id := asInt64(cpu)
	if id < 0 || id >= cpusetWidth {
		panic(unsupported{fmt.Sprintf("cpuset model: CPU id %d outside 0..%d", id, cpusetWidth-1)})
	}
	return bvConst(cpusetWidth, uint64(1)<<uint(id))
}

func cpusetList(i *interpreter, s cpusetv) []value {
	b := s.bits
	var m uint64
	if b.isConst() {
		m = b.bv
	} else {
		m = uint64(i.concretize(symv{b, types.Uint64}))
	}
	var out []value
	for m != 0 {
		k := bits.TrailingZeros64(m)
		out = append(out, k)
		m &^= 1 << uint(k)
	}
	return out
}

func cpusetString(m uint64) string {
	var parts []string
	for k := 0; k < 64; k++ {
		if m&(1<<uint(k)) == 0 {
			continue
		}
		j := k
		for j+1 < 64 && m&(1<<uint(j+1)) != 0 {
			j++
		}
		if j == k {
			parts = append(parts, strconv.Itoa(k))
		} else {
			parts = append(parts, fmt.Sprintf("%d-%d", k, j))
		}
		k = j
	}
	return strings.Join(parts, ",")
}

func cpusetParse(s string) (uint64, error) {
	var m uint64
	if s == "" {
		return 0, nil
	}
	for _, r := range strings.Split(s, ",") {
		bounds := strings.SplitN(r, "-", 2)
		if len(bounds) == 1 {
			e, err := strconv.Atoi(bounds[0])
			if err != nil {
				return 0, err
			}
			if e < 0 || e >= 64 {
				return 0, fmt.Errorf("cpuset model: id %d out of range", e)
			}
			m |= 1 << uint(e)
		} else {
			a, err := strconv.Atoi(bounds[0])
			if err != nil {
				return 0, err
			}
			b, err := strconv.Atoi(bounds[1])
			if err != nil {
				return 0, err
			}
			if a > b {
				return 0, fmt.Errorf("invalid range %q (%d > %d)", r, a, b)
			}
			if a < 0 || b >= 64 {
				return 0, fmt.Errorf("cpuset model: range %s out of model range", r)
			}
			for e := a; e <= b; e++ {
				m |= 1 << uint(e)
			}
		}
	}
	return m, nil
}

func init() {
	const P = "k8s.io/utils/cpuset."
	const M = "(k8s.io/utils/cpuset.CPUSet)."
	externals[P+"New"] = func(fr *frame, args []value) value {
		r := bvConst(cpusetWidth, 0)
		for _, c := range args[0].([]value) {
			r = bvBin("bvor", r, cpuBit(fr.i, c))
		}
		return cpusetv{r}
	}
	externals[M+"Size"] = func(fr *frame, args []value) value {
		return fromExpr(bvPopcount(asCPUSet(args[0]).bits, 64), types.Int)
	}
	externals[M+"IsEmpty"] = func(fr *frame, args []value) value {
		return fromExpr(mkEq(asCPUSet(args[0]).bits, bvConst(cpusetWidth, 0)), types.Bool)
	}
	externals[M+"Contains"] = func(fr *frame, args []value) value {
		if sv, ok := args[1].(symv); ok {
			e := bvResize(sv.e, cpusetWidth, true)
			in := mkAnd(bvCmp("bvsge", e, bvConst(cpusetWidth, 0)), bvCmp("bvslt", e, bvConst(cpusetWidth, cpusetWidth)))
			bit := bvBin("bvand", bvBin("bvlshr", asCPUSet(args[0]).bits, e), bvConst(cpusetWidth, 1))
			return fromExpr(mkAnd(in, mkEq(bit, bvConst(cpusetWidth, 1))), types.Bool)
		}
		id := asInt64(args[1])
		if id < 0 || id >= cpusetWidth {
			return false
		}
		b := asCPUSet(args[0]).bits
		return fromExpr(mkEq(bvExtract(int(id), int(id), b), bvConst(1, 1)), types.Bool)
	}
	externals[M+"Equals"] = func(fr *frame, args []value) value {
		return fromExpr(mkEq(asCPUSet(args[0]).bits, asCPUSet(args[1]).bits), types.Bool)
	}
	externals[M+"IsSubsetOf"] = func(fr *frame, args []value) value {
		a, b := asCPUSet(args[0]).bits, asCPUSet(args[1]).bits
		return fromExpr(mkEq(bvBin("bvand", a, bvNot(b)), bvConst(cpusetWidth, 0)), types.Bool)
	}
	externals[M+"Union"] = func(fr *frame, args []value) value {
		r := asCPUSet(args[0]).bits
		for _, o := range args[1].([]value) {
			r = bvBin("bvor", r, asCPUSet(o).bits)
		}
		return cpusetv{r}
	}
	externals[M+"Intersection"] = func(fr *frame, args []value) value {
		return cpusetv{bvBin("bvand", asCPUSet(args[0]).bits, asCPUSet(args[1]).bits)}
	}
	externals[M+"Difference"] = func(fr *frame, args []value) value {
		return cpusetv{bvBin("bvand", asCPUSet(args[0]).bits, bvNot(asCPUSet(args[1]).bits))}
	}
	externals[M+"Clone"] = func(fr *frame, args []value) value { return asCPUSet(args[0]) }
	externals[M+"List"] = func(fr *frame, args []value) value { return cpusetList(fr.i, asCPUSet(args[0])) }
	externals[M+"UnsortedList"] = func(fr *frame, args []value) value { return cpusetList(fr.i, asCPUSet(args[0])) }
	externals[M+"String"] = func(fr *frame, args []value) value {
		b := asCPUSet(args[0]).bits
		if b.isConst() {
			return cpusetString(b.bv)
		}
		// injective printer of a symbolic set: an opaque string that only
		// supports ==/!= and cpuset.Parse
		return opaqstr{"cpuset", b}
	}
	externals[P+"Parse"] = func(fr *frame, args []value) value {
		if o, ok := args[0].(opaqstr); ok && o.tag == "cpuset" {
			return tuple{cpusetv{o.e}, iface{}}
		}
		s, ok := args[0].(string)
		if !ok {
			panic(unsupported{"cpuset.Parse of symbolic string"})
		}
		m, err := cpusetParse(s)
		if err != nil {
			return tuple{cpusetv{bvConst(cpusetWidth, 0)}, fr.i.newErrorV("cpuset: " + err.Error())}
		}
		return tuple{cpusetv{bvConst(cpusetWidth, m)}, iface{}}
	}
}
