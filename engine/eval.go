package main

// Concrete evaluation of expressions under a model (used to avoid solver
// queries: a branch condition that the cached model of the path condition
// satisfies is feasible without asking).

import "math"

type evalFail struct{}

// evalExpr evaluates e under model m (missing variables are zero). It
// returns a constant expression or nil if some operator is not supported.
func evalExpr(e *Expr, m map[string]*Expr) (res *Expr) {
	defer func() {
		if r := recover(); r != nil {
			if _, ok := r.(evalFail); ok {
				res = nil
				return
			}
			panic(r)
		}
	}()
	memo := map[*Expr]*Expr{}
	return evalRec(e, m, memo)
}

func evalRec(e *Expr, m map[string]*Expr, memo map[*Expr]*Expr) *Expr {
	switch e.op {
	case "const":
		return e
	case "var":
		if v, ok := m[e.name]; ok && v != nil {
			return v
		}
		switch e.sort.k {
		case sBool:
			return falseE
		case sBV:
			return bvConst(e.sort.w, 0)
		default:
			return fpConst(e.sort.k, 0)
		}
	}
	if r, ok := memo[e]; ok {
		return r
	}
	args := make([]*Expr, len(e.args))
	for i, a := range e.args {
		// short-circuit ite
		if e.op == "ite" && i > 0 {
			break
		}
		args[i] = evalRec(a, m, memo)
	}
	var r *Expr
	switch e.op {
	case "not":
		r = boolConst(!args[0].b)
	case "and":
		r = boolConst(args[0].b && args[1].b)
	case "or":
		r = boolConst(args[0].b || args[1].b)
	case "ite":
		if args[0].b {
			r = evalRec(e.args[1], m, memo)
		} else {
			r = evalRec(e.args[2], m, memo)
		}
	case "=":
		r = mkEq(args[0], args[1])
	case "bvadd", "bvsub", "bvmul", "bvand", "bvor", "bvxor", "bvudiv", "bvurem", "bvsdiv", "bvsrem", "bvshl", "bvlshr", "bvashr":
		r = bvBin(e.op, args[0], args[1])
	case "bvnot":
		r = bvNot(args[0])
	case "bvneg":
		r = bvNeg(args[0])
	case "bvult", "bvule", "bvugt", "bvuge", "bvslt", "bvsle", "bvsgt", "bvsge":
		r = bvCmp(e.op, args[0], args[1])
	case "extract":
		r = bvExtract(e.params[0], e.params[1], args[0])
	case "zero_extend":
		r = bvZeroExt(e.params[0], args[0])
	case "sign_extend":
		r = bvSignExt(e.params[0], args[0])
	case "fp.add", "fp.sub", "fp.mul", "fp.div":
		r = fpBin(e.op, args[0], args[1])
	case "fp.lt", "fp.leq", "fp.gt", "fp.geq", "fp.eq":
		r = fpCmp(e.op, args[0], args[1])
	case "fp.neg":
		r = fpNeg(args[0])
	case "fp.abs":
		r = fpConst(e.sort.k, math.Abs(args[0].f))
	case "fp.isNaN":
		r = boolConst(math.IsNaN(args[0].f))
	case "fp.roundToIntegral.floor":
		r = fpConst(e.sort.k, math.Floor(args[0].f))
	case "fp.roundToIntegral.ceil":
		r = fpConst(e.sort.k, math.Ceil(args[0].f))
	case "to_fp_s":
		f := float64(signExt(args[0].sort.w, args[0].bv))
		if e.sort.k == sFP32 {
			f = float64(float32(signExt(args[0].sort.w, args[0].bv)))
		}
		r = fpConst(e.sort.k, f)
	case "to_fp_u":
		f := float64(args[0].bv)
		if e.sort.k == sFP32 {
			f = float64(float32(args[0].bv))
		}
		r = fpConst(e.sort.k, f)
	case "to_fp_f":
		f := args[0].f
		if e.sort.k == sFP32 {
			f = float64(float32(f))
		}
		r = fpConst(e.sort.k, f)
	case "fp.to_sbv":
		f := args[0].f
		if math.IsNaN(f) || f >= 9.3e18 || f <= -9.3e18 {
			panic(evalFail{})
		}
		r = bvConst(e.sort.w, uint64(int64(f)))
	case "fp.to_ubv":
		f := args[0].f
		if math.IsNaN(f) || f >= 1.8e19 || f <= -1 {
			panic(evalFail{})
		}
		r = bvConst(e.sort.w, uint64(f))
	default:
		panic(evalFail{})
	}
	if r == nil || !r.isConst() {
		panic(evalFail{})
	}
	memo[e] = r
	return r
}
