package main

// Native replay: the harness package is compiled by `go test -c` with the
// harness and shim injected by overlay; each value vector runs in a fresh
// process of that binary.

import (
	"bytes"
	"encoding/json"
	"fmt"
	"os"
	"os/exec"
	"path/filepath"
	"sort"
	"strings"
	"time"
)

type nativeRunner struct {
	tmp    string
	bin    string
	pkgDir string
}

type nativeOutcome struct {
	outcome string
	events  []string
	raw     string
}

const replayTestTmpl = `//go:build verif

package PACKAGE

import (
	"fmt"
	"os"
	"testing"
)

var verifHarnesses = map[string]func(){
ENTRIES}

func TestVerifReplayDriver(t *testing.T) {
	path := os.Getenv("VERIF_REPLAY")
	if path == "" {
		t.Skip("VERIF_REPLAY not set")
	}
	name, err := verifLoadVector(path)
	if err != nil {
		t.Fatalf("replay vector: %v", err)
	}
	f, ok := verifHarnesses[name]
	if !ok {
		t.Fatalf("unknown harness %q", name)
	}
	out := verifRunHarness(name, f)
	fmt.Println("VERIF-OUTCOME " + out)
}
`

func newNativeRunner(u *unitCfg, pkgName, pkgDir string, ov map[string][]byte, entries []string) (*nativeRunner, error) {
	tmp, err := os.MkdirTemp("", "gosymex-native-")
	if err != nil {
		return nil, err
	}
	nr := &nativeRunner{tmp: tmp, pkgDir: pkgDir}
	replace := map[string]string{}
	n := 0
	write := func(virtual string, data []byte) error {
		n++
		real := filepath.Join(tmp, fmt.Sprintf("f%d_%s", n, filepath.Base(virtual)))
		if err := os.WriteFile(real, data, 0o644); err != nil {
			return err
		}
		replace[virtual] = real
		return nil
	}
	keys := make([]string, 0, len(ov))
	for k := range ov {
		keys = append(keys, k)
	}
	sort.Strings(keys)
	for _, k := range keys {
		if err := write(k, ov[k]); err != nil {
			return nil, err
		}
	}
	var sb strings.Builder
	for _, e := range entries {
		fmt.Fprintf(&sb, "\t%q: %s,\n", e, e)
	}
	drv := strings.Replace(replayTestTmpl, "package PACKAGE", "package "+pkgName, 1)
	drv = strings.Replace(drv, "ENTRIES", sb.String(), 1)
	if err := write(filepath.Join(pkgDir, "zz_verif_replay_test.go"), []byte(drv)); err != nil {
		return nil, err
	}
	ovj, _ := json.Marshal(map[string]interface{}{"Replace": replace})
	ovPath := filepath.Join(tmp, "overlay.json")
	if err := os.WriteFile(ovPath, ovj, 0o644); err != nil {
		return nil, err
	}
	nr.bin = filepath.Join(tmp, "harness.test")
	cmd := exec.Command("go", "test", "-c", "-vet=off", "-tags", "verif", "-overlay", ovPath, "-o", nr.bin, u.Pkg)
	cmd.Dir = repoRoot
	cmd.Env = goEnv()
	var out bytes.Buffer
	cmd.Stdout, cmd.Stderr = &out, &out
	if err := cmd.Run(); err != nil {
		nr.close()
		return nil, fmt.Errorf("go test -c: %v\n%s", err, out.String())
	}
	return nr, nil
}

func (nr *nativeRunner) close() {
	if nr.tmp != "" {
		os.RemoveAll(nr.tmp)
	}
}

// run executes one vector. If keepPath is non-empty the replay file is
// written there (and kept), else to scratch.
func (nr *nativeRunner) run(harness string, values map[string]string, params map[string]int, keepPath string) (*nativeOutcome, error) {
	path := keepPath
	if path == "" {
		path = filepath.Join(nr.tmp, "vector.json")
	}
	data, _ := json.MarshalIndent(map[string]interface{}{"harness": harness, "values": values, "params": params}, "", " ")
	if err := os.WriteFile(path, data, 0o644); err != nil {
		return nil, err
	}
	cmd := exec.Command(nr.bin, "-test.run", "^TestVerifReplayDriver$", "-test.count=1", "-test.timeout=120s")
	cmd.Dir = nr.pkgDir
	// scratch files of the native harness go under the runner's directory, which is removed when the unit is done
	scratch := filepath.Join(nr.tmp, "scratch")
	os.MkdirAll(scratch, 0o755)
	cmd.Env = append(os.Environ(), "VERIF_REPLAY="+path, "TMPDIR="+scratch)
	var out bytes.Buffer
	cmd.Stdout, cmd.Stderr = &out, &out
	done := make(chan error, 1)
	go func() { done <- cmd.Run() }()
	select {
	case <-done:
	case <-time.After(150 * time.Second):
		cmd.Process.Kill()
		return nil, fmt.Errorf("native run timed out")
	}
	res := &nativeOutcome{raw: out.String()}
	for _, line := range strings.Split(out.String(), "\n") {
		if strings.HasPrefix(line, "VERIF-EVENT ") {
			res.events = append(res.events, strings.TrimPrefix(line, "VERIF-EVENT "))
		}
		if strings.HasPrefix(line, "VERIF-OUTCOME ") {
			res.outcome = strings.TrimPrefix(line, "VERIF-OUTCOME ")
		}
	}
	if res.outcome == "" {
		tail := out.String()
		if len(tail) > 600 {
			tail = tail[len(tail)-600:]
		}
		return nil, fmt.Errorf("native harness produced no outcome:\n%s", tail)
	}
	return res, nil
}
