package main

// Harness-API intrinsics for the resource-manager harnesses (C14 handlers,
// C15, C11): observers of the sync.Mutex/RWMutex lock-state model (see
// lockOf in external.go). Natively the harness implements them with
// TryLock/TryRLock (single-threaded, so "TryRLock fails" == write-held).

func init() {
	// verifRWMutexWriteHeld(mu *sync.RWMutex) bool: mu is write-locked.
	verifAPI["verifRWMutexWriteHeld"] = func(fr *frame, args []value) value {
		if args[0].(*value) == nil {
			nilDeref()
		}
		return fr.i.lockOf(args[0]).writers > 0
	}
	// verifRWMutexFree(mu *sync.RWMutex) bool: neither read- nor write-locked.
	verifAPI["verifRWMutexFree"] = func(fr *frame, args []value) value {
		if args[0].(*value) == nil {
			nilDeref()
		}
		ls := fr.i.lockOf(args[0])
		return ls.writers == 0 && ls.readers == 0
	}
}
