package main

// Path state, forking by re-execution, work list and workers.

import (
	"fmt"
	"os"
	"sort"
	"strings"
	"sync"
	"sync/atomic"
	"time"
)

var stderr = os.Stderr

// Engine-level panics (never visible to the target program's recover).
type pathEnd struct{ reason string }
type unsupported struct{ msg string }
type unwindExceeded struct{ where string }

type pathStatus int

const (
	stDone pathStatus = iota
	stAssumeFalse
	stInfeasible
	stUnwind
	stUnsupported
	stEngineError
	stPanic // target panic escaped the harness
)

func (s pathStatus) String() string {
	return [...]string{"done", "assume-false", "infeasible", "UNWIND", "UNSUPPORTED", "ENGINE-ERROR", "target-panic"}[s]
}

type pathState struct {
	prefix    []int64
	prefixModel map[string]*Expr
	decisions []int64
	nondetCnt map[string]int
	vars      []*Expr
	varSet    map[string]*Expr
	covers    []string
	pcLen     int
	decided   map[exprKey]bool // conditions implied by the path condition
	model     map[string]*Expr // a model of the current path condition, or nil
	steps     int64
	unknownFeas int
}

// Finding is a candidate violation: a model under which an assertion fails.
type Finding struct {
	Harness string            `json:"harness"`
	Label   string            `json:"label"`
	Kind    string            `json:"kind"` // "assert" or "panic"
	Detail  string            `json:"detail,omitempty"`
	Values  map[string]string `json:"values"`
	Path    []int64           `json:"path,omitempty"`
}

type explorer struct {
	cfg     *runConfig
	harness string

	mu       sync.Mutex
	cond     *sync.Cond
	work     []workItem
	active   int
	stopped  bool
	paths    int64
	statuses map[pathStatus]int64
	transitions int64
	coverWitness map[string]map[string]string
	coverCount   map[string]int64
	assertPass   map[string]int64 // unsat (holds) per label
	assertTrivial map[string]int64
	assertUnknown map[string]int64
	findings     []*Finding
	findingKeys  map[string]bool
	problems     []string // unsupported / engine errors (deduplicated)
	problemSet   map[string]int
	maxDecisions int
	maxUnwindSeen int
	funcsSeen   map[string]bool
	deadline    time.Time
	timedOut    bool
}

func newExplorer(cfg *runConfig, harness string) *explorer {
	ex := &explorer{cfg: cfg, harness: harness,
		statuses: map[pathStatus]int64{}, coverWitness: map[string]map[string]string{}, coverCount: map[string]int64{},
		assertPass: map[string]int64{}, assertTrivial: map[string]int64{}, assertUnknown: map[string]int64{},
		findingKeys: map[string]bool{}, problemSet: map[string]int{}, funcsSeen: map[string]bool{}}
	ex.cond = sync.NewCond(&ex.mu)
	return ex
}

type workItem struct {
	prefix  []int64
	model   map[string]*Expr // model of the path condition at the end of prefix (may be nil)
	retries int
}

func (ex *explorer) push(prefix []int64, model map[string]*Expr) {
	ex.mu.Lock()
	ex.work = append(ex.work, workItem{prefix: prefix, model: model})
	ex.mu.Unlock()
	ex.cond.Signal()
}

func (ex *explorer) pop() (workItem, bool) {
	ex.mu.Lock()
	defer ex.mu.Unlock()
	for {
		if ex.stopped {
			return workItem{}, false
		}
		if n := len(ex.work); n > 0 {
			p := ex.work[n-1]
			ex.work = ex.work[:n-1]
			ex.active++
			return p, true
		}
		if ex.active == 0 {
			ex.stopped = true
			ex.cond.Broadcast()
			return workItem{}, false
		}
		ex.cond.Wait()
	}
}

func (ex *explorer) done() {
	ex.mu.Lock()
	ex.active--
	if ex.active == 0 && len(ex.work) == 0 {
		ex.stopped = true
	}
	ex.mu.Unlock()
	ex.cond.Broadcast()
}

func (ex *explorer) problem(kind, msg string) {
	ex.mu.Lock()
	defer ex.mu.Unlock()
	k := kind + ": " + msg
	if ex.problemSet[k] == 0 {
		ex.problems = append(ex.problems, k)
	}
	ex.problemSet[k]++
}

func (ex *explorer) addFinding(f *Finding) {
	ex.mu.Lock()
	defer ex.mu.Unlock()
	key := f.Kind + "|" + f.Label
	if f.Kind == "panic" {
		key += "|" + f.Detail
	}
	// keep up to 3 distinct models per label
	n := 0
	for _, g := range ex.findings {
		if g.Kind == f.Kind && g.Label == f.Label && (f.Kind != "panic" || g.Detail == f.Detail) {
			n++
		}
	}
	if n >= 3 {
		return
	}
	ex.findingKeys[key] = true
	ex.findings = append(ex.findings, f)
}

// ---------- interpreter-side API

func (i *interpreter) newNondet(name string, s Sort) *Expr {
	p := i.path
	n := p.nondetCnt[name]
	p.nondetCnt[name] = n + 1
	full := fmt.Sprintf("%s#%d", name, n)
	if i.vector != nil {
		// concrete (co-simulation) mode
		return i.vectorValue(full, s)
	}
	v := mkVar(full, s)
	p.vars = append(p.vars, v)
	p.varSet[full] = v
	return v
}

func (i *interpreter) vectorValue(full string, s Sort) *Expr {
	str, ok := i.vector[full]
	switch s.k {
	case sBool:
		return boolConst(ok && str == "true")
	case sBV:
		var v uint64
		if ok {
			fmt.Sscanf(str, "%d", &v)
			if strings.HasPrefix(str, "-") {
				var sv int64
				fmt.Sscanf(str, "%d", &sv)
				v = uint64(sv)
			}
		}
		return bvConst(s.w, v)
	default:
		var f float64
		if ok {
			fmt.Sscanf(str, "%g", &f)
		}
		return fpConst(s.k, f)
	}
}

// addPC asserts c on the current path.
func (i *interpreter) addPC(c *Expr) {
	i.sol.assert(c)
	i.path.pcLen++
	i.path.learn(c, true)
	if m := i.path.model; m != nil {
		if v := evalExpr(c, m); v == nil || !v.b {
			i.path.model = nil
		}
	}
}

// holdsInModel evaluates c under the cached model of the path condition:
// (true,true) means PC && c is satisfiable without asking the solver.
func (i *interpreter) holdsInModel(c *Expr) (val, ok bool) {
	m := i.path.model
	if m == nil {
		return false, false
	}
	v := evalExpr(c, m)
	if v == nil {
		return false, false
	}
	return v.b, true
}

// learn records that c has truth value v on this path (and what follows
// from it syntactically), so that later branches on the same condition need
// no solver query.
func (p *pathState) learn(c *Expr, v bool) {
	for c.op == "not" {
		c, v = c.args[0], !v
	}
	if c.isConst() {
		return
	}
	p.decided[c.key()] = v
	switch {
	case c.op == "and" && v, c.op == "or" && !v:
		p.learn(c.args[0], v)
		p.learn(c.args[1], v)
	}
}

func (p *pathState) known(c *Expr) (bool, bool) {
	inv := false
	for c.op == "not" {
		c, inv = c.args[0], !inv
	}
	v, ok := p.decided[c.key()]
	return v != inv, ok
}

// branch decides a symbolic condition, forking if both sides are feasible.
func (i *interpreter) branch(c *Expr) bool {
	if c.isConst() {
		return c.b
	}
	p := i.path
	if v, ok := p.known(c); ok {
		return v
	}
	n := len(p.decisions)
	if n < len(p.prefix) {
		d := p.prefix[n]
		p.decisions = append(p.decisions, d)
		if len(p.decisions) == len(p.prefix) {
			// the work item's model satisfies the path condition up to and
			// including this decision
			p.model, p.prefixModel = p.prefixModel, nil
		}
		if d == 1 {
			i.addPC(c)
		} else {
			i.addPC(mkNot(c))
		}
		return d == 1
	}
	if n >= i.ex.maxDecisions {
		panic(unwindExceeded{fmt.Sprintf("more than %d symbolic decisions on one path", i.ex.maxDecisions)})
	}
	var rT, rF string
	var mT, mF map[string]*Expr
	if val, ok := i.holdsInModel(c); ok {
		// one side is witnessed by the cached model; ask only about the other
		if val {
			rT, mT = "sat", p.model
			rF, mF = i.sol.check(mkNot(c), false, p.vars)
		} else {
			rF, mF = "sat", p.model
			rT, mT = i.sol.check(c, false, p.vars)
		}
	} else {
		rT, mT = i.sol.check(c, false, p.vars)
		if rT == "unsat" {
			rF = "sat"
		} else {
			rF, mF = i.sol.check(mkNot(c), false, p.vars)
		}
	}
	if rT == "unknown" || rF == "unknown" {
		p.unknownFeas++
	}
	tOK, fOK := rT != "unsat", rF != "unsat"
	switch {
	case tOK && fOK:
		alt := make([]int64, n+1)
		copy(alt, p.decisions)
		alt[n] = 0
		i.ex.push(alt, mF)
		p.decisions = append(p.decisions, 1)
		p.model = mT
		i.addPC(c)
		return true
	case tOK:
		p.decisions = append(p.decisions, 1)
		if mT != nil {
			p.model = mT
		}
		i.addPC(c)
		return true
	case fOK:
		p.decisions = append(p.decisions, 0)
		if mF != nil {
			p.model = mF
		}
		i.addPC(mkNot(c))
		return false
	}
	panic(pathEnd{"infeasible"})
}

// concretize returns a concrete value for symbolic integer x, forking over
// all feasible values.
func (i *interpreter) concretize(x symv) int64 {
	p := i.path
	w := x.e.sort.w
	for iter := 0; ; iter++ {
		if iter > 4096 {
			panic(unwindExceeded{"concretize: more than 4096 values"})
		}
		n := len(p.decisions)
		var m uint64
		if n < len(p.prefix) {
			m = uint64(p.prefix[n])
			p.decisions = append(p.decisions, int64(m))
		} else {
			tmp := mkVar(fmt.Sprintf("$conc%d", n), x.e.sort)
			res, model := i.sol.check(mkEq(tmp, x.e), false, []*Expr{tmp})
			if res == "unsat" {
				panic(pathEnd{"infeasible"})
			}
			if res != "sat" || model[tmp.name] == nil {
				panic(unsupported{"concretize: solver returned " + res})
			}
			m = model[tmp.name].bv
			p.decisions = append(p.decisions, int64(m))
		}
		if i.branch(mkEq(x.e, bvConst(w, m))) {
			if kindSigned(x.k) {
				return signExt(w, m)
			}
			return int64(m)
		}
	}
}

// concInt returns v as int64, concretizing if symbolic.
func (i *interpreter) concInt(v value) int64 {
	if s, ok := v.(symv); ok {
		return i.concretize(s)
	}
	return asInt64(v)
}

// concBool decides v.
func (i *interpreter) concBool(v value) bool {
	if s, ok := v.(symv); ok {
		return i.branch(s.e)
	}
	return v.(bool)
}

func fmtModelValue(e *Expr) string {
	switch e.sort.k {
	case sBool:
		return fmt.Sprint(e.b)
	case sBV:
		return fmt.Sprintf("%d", e.bv)
	default:
		return fmt.Sprintf("%g", e.f)
	}
}

func (i *interpreter) modelToValues(model map[string]*Expr) map[string]string {
	out := map[string]string{}
	for _, v := range i.path.vars {
		if e, ok := model[v.name]; ok {
			out[v.name] = fmtModelValue(e)
		}
	}
	return out
}

// checkAssert discharges one assertion on the current path.
func (i *interpreter) checkAssert(label string, c *Expr, kind, detail string) {
	ex := i.ex
	if c.isConst() && c.b {
		ex.mu.Lock()
		ex.assertTrivial[label]++
		ex.mu.Unlock()
		return
	}
	if i.vector != nil {
		// concrete run: a constant false assertion
		i.concreteEvents = append(i.concreteEvents, "assert-fail "+label)
		return
	}
	res, model := i.sol.check(mkNot(c), true, i.path.vars)
	switch res {
	case "unsat":
		ex.mu.Lock()
		ex.assertPass[label]++
		ex.mu.Unlock()
	case "sat":
		f := &Finding{Harness: ex.harness, Label: label, Kind: kind, Detail: detail, Values: i.modelToValues(model),
			Path: append([]int64(nil), i.path.decisions...)}
		ex.addFinding(f)
		// continue under the assumption that the assertion held - unless it
		// fails for every input of this path: then carry on unconstrained, so
		// that later assertions on the same path are still checked (a recorded
		// known finding must not shadow a different violation)
		if kind == "panic" {
			panic(pathEnd{"panic-reported"})
		}
		r2, _ := i.sol.check(c, false, nil)
		if r2 != "unsat" {
			i.addPC(c)
		}
	default:
		ex.mu.Lock()
		ex.assertUnknown[label]++
		ex.mu.Unlock()
		i.addPC(c)
	}
}

func (i *interpreter) cover(label string) {
	ex := i.ex
	if i.vector != nil {
		i.concreteEvents = append(i.concreteEvents, "cover "+label)
		return
	}
	i.path.covers = append(i.path.covers, label)
	ex.mu.Lock()
	ex.coverCount[label]++
	_, have := ex.coverWitness[label]
	if !have {
		ex.coverWitness[label] = nil // claim
	}
	ex.mu.Unlock()
	if !have {
		res, model := i.sol.check(nil, false, i.path.vars)
		if res == "sat" {
			ex.mu.Lock()
			ex.coverWitness[label] = i.modelToValues(model)
			ex.mu.Unlock()
		} else {
			ex.mu.Lock()
			delete(ex.coverWitness, label)
			ex.coverCount[label]--
			ex.mu.Unlock()
			if res == "unsat" {
				panic(pathEnd{"infeasible"})
			}
		}
	}
}

// ---------- worker loop

// startPrimary starts the incremental solver of a worker. cvc5 takes its
// per-query limit on the command line (the quick limit; slower queries are
// re-run by the one-shot fallback with the full timeout).
func startPrimary(cfg *runConfig) (*Solver, error) {
	if strings.HasPrefix(cfg.solver, "cvc5") {
		s, err := startSolver(cfg.solver, 4*quickMs)
		if err == nil {
			s.timeoutMs = cfg.timeoutMs
		}
		return s, err
	}
	return startSolver(cfg.solver, cfg.timeoutMs)
}

// gSem bounds the number of paths executing at once across all explorers.
var gSem chan struct{}

func (ex *explorer) run(prog *loadedProgram, entry string, nworkers int) {
	ex.push(nil, nil)
	var wg sync.WaitGroup
	for w := 0; w < nworkers; w++ {
		wg.Add(1)
		go func(w int) {
			defer wg.Done()
			sol, err := startPrimary(ex.cfg)
			if err != nil {
				ex.problem("solver", err.Error())
				return
			}
			defer func() { sol.close() }()
			if ex.cfg.smtLog != "" && w == 0 {
				f, _ := os.Create(ex.cfg.smtLog)
				sol.log = f
				defer f.Close()
			}
			for {
				item, ok := ex.pop()
				if !ok {
					return
				}
				if !ex.deadline.IsZero() && time.Now().After(ex.deadline) {
					ex.mu.Lock()
					ex.timedOut = true
					ex.stopped = true
					ex.mu.Unlock()
					ex.cond.Broadcast()
					ex.done()
					return
				}
				gSem <- struct{}{}
				ex.runPath(prog, entry, sol, item)
				<-gSem
				ex.done()
				if sol.dead {
					sol.close()
					sol, err = startPrimary(ex.cfg)
					if err != nil {
						ex.problem("solver", err.Error())
						return
					}
				}
			}
		}(w)
	}
	wg.Wait()
}

func (ex *explorer) runPath(prog *loadedProgram, entry string, sol *Solver, item workItem) {
	sol.reset()
	prefix := item.prefix
	i := newInterpreter(prog, ex, sol)
	i.path = &pathState{prefix: prefix, prefixModel: item.model, nondetCnt: map[string]int{}, varSet: map[string]*Expr{}, decided: map[exprKey]bool{}}
	status, detail := i.runHarness(entry)
	if sol.dead || (sol.oneshot != nil && sol.oneshot.dead) {
		// the solver process died during this path (resource pressure): its
		// answers after that point are void; run the path again
		if item.retries < 3 {
			item.retries++
			ex.mu.Lock()
			ex.work = append(ex.work, item)
			ex.mu.Unlock()
			ex.cond.Signal()
			return
		}
		status, detail = stEngineError, "solver process died repeatedly"
	}
	atomic.AddInt64(&ex.paths, 1)
	atomic.AddInt64(&ex.transitions, int64(len(i.path.decisions)))
	ex.mu.Lock()
	ex.statuses[status]++
	for f := range i.funcsSeen {
		ex.funcsSeen[f] = true
	}
	if i.maxBackEdges > ex.maxUnwindSeen {
		ex.maxUnwindSeen = i.maxBackEdges
	}
	ex.mu.Unlock()
	switch status {
	case stUnsupported, stEngineError, stUnwind:
		ex.problem(status.String(), detail)
	}
	if ex.cfg.verbose {
		fmt.Fprintf(stderr, "path %v: %s %s (%d decisions, %d steps)\n", prefix, status, detail, len(i.path.decisions), i.path.steps)
	}
}

func sortedKeys[V any](m map[string]V) []string {
	ks := make([]string, 0, len(m))
	for k := range m {
		ks = append(ks, k)
	}
	sort.Strings(ks)
	return ks
}
