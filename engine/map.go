package main

// Ordered map with (possibly symbolic) keys. Iteration order is insertion
// order, or a solver-chosen permutation for maps marked with verifMapOrder.
// Lookups with symbolic keys fork over "equals entry k" / "absent".

import (
	"go/types"
)

type mentry struct {
	key, val value
	deleted  bool
}

type omap struct {
	keyType     types.Type
	entries     []*mentry
	randomOrder bool
}

func makeMap(kt types.Type, reserve int64) value {
	return &omap{keyType: kt}
}

// find returns the entry equal to k, forking on symbolic equalities.
func (m *omap) find(i *interpreter, k value) *mentry {
	if m == nil {
		return nil
	}
	for _, e := range m.entries {
		eq := equalsExpr(m.keyType, k, e.key)
		if eq.isConst() {
			if eq.b {
				return e
			}
			continue
		}
		if i.branch(eq) {
			return e
		}
	}
	return nil
}

func (m *omap) lookup(i *interpreter, k value) (value, bool) {
	if e := m.find(i, k); e != nil {
		return e.val, true
	}
	return nil, false
}

func (m *omap) insert(i *interpreter, k, v value) {
	if e := m.find(i, k); e != nil {
		e.val = v
		return
	}
	m.entries = append(m.entries, &mentry{key: k, val: v})
}

func (m *omap) delete(i *interpreter, k value) {
	if m == nil {
		return
	}
	e := m.find(i, k)
	if e == nil {
		return
	}
	e.deleted = true
	for j, x := range m.entries {
		if x == e {
			m.entries = append(m.entries[:j:j], m.entries[j+1:]...)
			break
		}
	}
}

func (m *omap) len() int {
	if m == nil {
		return 0
	}
	return len(m.entries)
}

type omapIter struct {
	i       *interpreter
	m       *omap
	pending []*mentry
}

func (it *omapIter) next() tuple {
	for len(it.pending) > 0 {
		k := 0
		if it.m.randomOrder && len(it.pending) > 1 {
			k = it.i.choose("maporder", len(it.pending))
		}
		e := it.pending[k]
		it.pending = append(it.pending[:k:k], it.pending[k+1:]...)
		if e.deleted {
			continue
		}
		return tuple{true, e.key, e.val}
	}
	return tuple{false, nil, nil}
}

// choose returns a solver-chosen value in [0,n), forking over all n.
func (i *interpreter) choose(name string, n int) int {
	if n <= 1 {
		return 0
	}
	v := i.newNondet(name, bvSort(64))
	if v.isConst() {
		k := int(v.bv)
		if k < 0 || k >= n {
			panic(pathEnd{"assume"})
		}
		return k
	}
	i.assume(bvCmp("bvult", v, bvConst(64, uint64(n))))
	for k := 0; k < n-1; k++ {
		if i.branch(mkEq(v, bvConst(64, uint64(k)))) {
			return k
		}
	}
	return n - 1
}

func (i *interpreter) assume(c *Expr) {
	if c.isConst() {
		if !c.b {
			panic(pathEnd{"assume"})
		}
		return
	}
	if len(i.path.decisions) >= len(i.path.prefix) {
		// (while replaying a prefix the assumption is known to be satisfiable)
		r, _ := i.sol.check(c, false, nil)
		if r == "unsat" {
			panic(pathEnd{"assume"})
		}
	}
	i.addPC(c)
}
