package main

// Symbolic scalars and strings, mixed with the interpreter's native values.

import (
	"fmt"
	"go/token"
	"go/types"
	"math"
)

// symv is a symbolic scalar of Go basic kind k.
type symv struct {
	e *Expr
	k types.BasicKind
}

// opaqstr is the string form of a modelled value whose content is symbolic
// (e.g. CPUSet.String() of a symbolic set). It supports ==, != and the
// matching modelled parser only; anything else is unsupported.
type opaqstr struct {
	tag string
	e   *Expr
}

// symstr is a string of concrete length whose bytes may be symbolic.
// Each element is uint8 or symv{k: Uint8}.
type symstr []value

func kindWidth(k types.BasicKind) int {
	switch k {
	case types.Int8, types.Uint8:
		return 8
	case types.Int16, types.Uint16:
		return 16
	case types.Int32, types.Uint32:
		return 32
	case types.Int, types.Uint, types.Int64, types.Uint64, types.Uintptr:
		return 64
	}
	panic(fmt.Sprintf("kindWidth: %v", k))
}

func kindSigned(k types.BasicKind) bool {
	switch k {
	case types.Int, types.Int8, types.Int16, types.Int32, types.Int64:
		return true
	}
	return false
}

func kindIsInt(k types.BasicKind) bool {
	switch k {
	case types.Int, types.Int8, types.Int16, types.Int32, types.Int64,
		types.Uint, types.Uint8, types.Uint16, types.Uint32, types.Uint64, types.Uintptr:
		return true
	}
	return false
}

func kindSort(k types.BasicKind) Sort {
	switch k {
	case types.Bool:
		return boolSort
	case types.Float32:
		return Sort{sFP32, 0}
	case types.Float64:
		return Sort{sFP64, 0}
	}
	return bvSort(kindWidth(k))
}

// kindOf returns the basic kind of a scalar value (native or symbolic).
func kindOf(v value) (types.BasicKind, bool) {
	switch v := v.(type) {
	case symv:
		return v.k, true
	case bool:
		return types.Bool, true
	case int:
		return types.Int, true
	case int8:
		return types.Int8, true
	case int16:
		return types.Int16, true
	case int32:
		return types.Int32, true
	case int64:
		return types.Int64, true
	case uint:
		return types.Uint, true
	case uint8:
		return types.Uint8, true
	case uint16:
		return types.Uint16, true
	case uint32:
		return types.Uint32, true
	case uint64:
		return types.Uint64, true
	case uintptr:
		return types.Uintptr, true
	case float32:
		return types.Float32, true
	case float64:
		return types.Float64, true
	}
	return 0, false
}

// toExpr lifts a scalar value to an expression.
func toExpr(v value) *Expr {
	switch v := v.(type) {
	case symv:
		return v.e
	case bool:
		return boolConst(v)
	case float32:
		return fpConst(sFP32, float64(v))
	case float64:
		return fpConst(sFP64, v)
	}
	k, ok := kindOf(v)
	if !ok {
		panic(unsupported{fmt.Sprintf("toExpr: %T", v)})
	}
	if kindSigned(k) {
		return bvConst(kindWidth(k), uint64(asInt64(v)))
	}
	return bvConst(kindWidth(k), asUint64x(v))
}

func asUint64x(x value) uint64 {
	switch x := x.(type) {
	case uint:
		return uint64(x)
	case uint8:
		return uint64(x)
	case uint16:
		return uint64(x)
	case uint32:
		return uint64(x)
	case uint64:
		return x
	case uintptr:
		return uint64(x)
	}
	return uint64(asInt64(x))
}

// fromExpr builds a value of kind k from e, returning a native value when e
// is constant.
func fromExpr(e *Expr, k types.BasicKind) value {
	if !e.isConst() {
		return symv{e, k}
	}
	switch k {
	case types.Bool:
		return e.b
	case types.Float32:
		return float32(e.f)
	case types.Float64:
		return e.f
	case types.Int:
		return int(signExt(64, e.bv))
	case types.Int8:
		return int8(e.bv)
	case types.Int16:
		return int16(e.bv)
	case types.Int32:
		return int32(e.bv)
	case types.Int64:
		return int64(e.bv)
	case types.Uint:
		return uint(e.bv)
	case types.Uint8:
		return uint8(e.bv)
	case types.Uint16:
		return uint16(e.bv)
	case types.Uint32:
		return uint32(e.bv)
	case types.Uint64:
		return e.bv
	case types.Uintptr:
		return uintptr(e.bv)
	}
	panic(fmt.Sprintf("fromExpr: kind %v", k))
}

func isSym(v value) bool {
	switch v.(type) {
	case symv, symstr, opaqstr:
		return true
	}
	return false
}

// symBinop implements binop when at least one operand is symbolic.
func symBinop(i *interpreter, op token.Token, x, y value) value {
	if _, ok := x.(opaqstr); ok {
		panic(unsupported{"operator " + op.String() + " on the string form of a symbolic cpuset"})
	}
	if _, ok := y.(opaqstr); ok {
		panic(unsupported{"operator " + op.String() + " on the string form of a symbolic cpuset"})
	}
	// strings
	_, xs := x.(symstr)
	_, ys := y.(symstr)
	_, xn := x.(string)
	_, yn := y.(string)
	if xs || ys || xn || yn {
		return symStrBinop(op, toSymstr(x), toSymstr(y))
	}
	k, ok := kindOf(x)
	if !ok {
		panic(unsupported{fmt.Sprintf("symBinop: %T %s %T", x, op, y)})
	}
	ex := toExpr(x)
	switch op {
	case token.SHL, token.SHR:
		ky, _ := kindOf(y)
		ey := toExpr(y)
		w := kindWidth(k)
		if kindSigned(ky) {
			if i.branch(bvCmp("bvslt", ey, bvConst(ey.sort.w, 0))) {
				panic(targetPanic{v: rtError("negative shift amount")})
			}
		}
		// bring count to width w, saturating
		var cnt *Expr
		var big *Expr = falseE
		if ey.sort.w > w {
			big = bvCmp("bvuge", ey, bvConst(ey.sort.w, uint64(w)))
			cnt = bvExtract(w-1, 0, ey)
		} else {
			cnt = bvZeroExt(w-ey.sort.w, ey)
		}
		var r *Expr
		if op == token.SHL {
			r = mkIte(big, bvConst(w, 0), bvBin("bvshl", ex, cnt))
		} else if kindSigned(k) {
			r = mkIte(big, bvBin("bvashr", ex, bvConst(w, uint64(w-1))), bvBin("bvashr", ex, cnt))
		} else {
			r = mkIte(big, bvConst(w, 0), bvBin("bvlshr", ex, cnt))
		}
		return fromExpr(r, k)
	}
	ey := toExpr(y)
	if k == types.Bool {
		switch op {
		case token.EQL:
			return fromExpr(mkEq(ex, ey), types.Bool)
		case token.NEQ:
			return fromExpr(mkNot(mkEq(ex, ey)), types.Bool)
		}
		panic(unsupported{"symBinop bool " + op.String()})
	}
	if k == types.Float32 || k == types.Float64 {
		switch op {
		case token.ADD:
			return fromExpr(fpBin("fp.add", ex, ey), k)
		case token.SUB:
			return fromExpr(fpBin("fp.sub", ex, ey), k)
		case token.MUL:
			return fromExpr(fpBin("fp.mul", ex, ey), k)
		case token.QUO:
			return fromExpr(fpBin("fp.div", ex, ey), k)
		case token.LSS:
			return fromExpr(fpCmp("fp.lt", ex, ey), types.Bool)
		case token.LEQ:
			return fromExpr(fpCmp("fp.leq", ex, ey), types.Bool)
		case token.GTR:
			return fromExpr(fpCmp("fp.gt", ex, ey), types.Bool)
		case token.GEQ:
			return fromExpr(fpCmp("fp.geq", ex, ey), types.Bool)
		case token.EQL:
			return fromExpr(fpCmp("fp.eq", ex, ey), types.Bool)
		case token.NEQ:
			return fromExpr(mkNot(fpCmp("fp.eq", ex, ey)), types.Bool)
		}
		panic(unsupported{"symBinop float " + op.String()})
	}
	sg := kindSigned(k)
	pick := func(s, u string) string {
		if sg {
			return s
		}
		return u
	}
	switch op {
	case token.ADD:
		return fromExpr(bvBin("bvadd", ex, ey), k)
	case token.SUB:
		return fromExpr(bvBin("bvsub", ex, ey), k)
	case token.MUL:
		return fromExpr(bvBin("bvmul", ex, ey), k)
	case token.QUO, token.REM:
		if i.branch(mkEq(ey, bvConst(ey.sort.w, 0))) {
			panic(targetPanic{v: rtError("integer divide by zero")})
		}
		if op == token.QUO {
			return fromExpr(bvBin(pick("bvsdiv", "bvudiv"), ex, ey), k)
		}
		return fromExpr(bvBin(pick("bvsrem", "bvurem"), ex, ey), k)
	case token.AND:
		return fromExpr(bvBin("bvand", ex, ey), k)
	case token.OR:
		return fromExpr(bvBin("bvor", ex, ey), k)
	case token.XOR:
		return fromExpr(bvBin("bvxor", ex, ey), k)
	case token.AND_NOT:
		return fromExpr(bvBin("bvand", ex, bvNot(ey)), k)
	case token.LSS:
		return fromExpr(bvCmp(pick("bvslt", "bvult"), ex, ey), types.Bool)
	case token.LEQ:
		return fromExpr(bvCmp(pick("bvsle", "bvule"), ex, ey), types.Bool)
	case token.GTR:
		return fromExpr(bvCmp(pick("bvsgt", "bvugt"), ex, ey), types.Bool)
	case token.GEQ:
		return fromExpr(bvCmp(pick("bvsge", "bvuge"), ex, ey), types.Bool)
	case token.EQL:
		return fromExpr(mkEq(ex, ey), types.Bool)
	case token.NEQ:
		return fromExpr(mkNot(mkEq(ex, ey)), types.Bool)
	}
	panic(unsupported{"symBinop int " + op.String()})
}

func symUnop(op token.Token, x symv) value {
	switch op {
	case token.NOT:
		return fromExpr(mkNot(x.e), types.Bool)
	case token.SUB:
		if x.k == types.Float32 || x.k == types.Float64 {
			return fromExpr(fpNeg(x.e), x.k)
		}
		return fromExpr(bvNeg(x.e), x.k)
	case token.XOR:
		return fromExpr(bvNot(x.e), x.k)
	}
	panic(unsupported{"symUnop " + op.String()})
}

// symConv converts symbolic scalar x to basic kind dst.
func symConv(x symv, dst types.BasicKind) value {
	src := x.k
	switch {
	case kindIsInt(src) && kindIsInt(dst):
		return fromExpr(bvResize(x.e, kindWidth(dst), kindSigned(src)), dst)
	case kindIsInt(src) && (dst == types.Float32 || dst == types.Float64):
		op := "to_fp_u"
		if kindSigned(src) {
			op = "to_fp_s"
		}
		return symv{newExpr(op, kindSort(dst), x.e), dst}
	case (src == types.Float32 || src == types.Float64) && kindIsInt(dst):
		op := "fp.to_ubv"
		if kindSigned(dst) {
			op = "fp.to_sbv"
		}
		return symv{newExpr(op, kindSort(dst), x.e), dst}
	case (src == types.Float32 || src == types.Float64) && (dst == types.Float32 || dst == types.Float64):
		if src == dst {
			return x
		}
		return symv{newExpr("to_fp_f", kindSort(dst), x.e), dst}
	case src == types.Bool && dst == types.Bool:
		return x
	}
	panic(unsupported{fmt.Sprintf("symConv %v -> %v", src, dst)})
}

// ---------- strings

func toSymstr(v value) symstr {
	switch v := v.(type) {
	case symstr:
		return v
	case string:
		s := make(symstr, len(v))
		for i := 0; i < len(v); i++ {
			s[i] = v[i]
		}
		return s
	}
	panic(unsupported{fmt.Sprintf("toSymstr: %T", v)})
}

// normStr returns a native string when all bytes are concrete.
func normStr(s symstr) value {
	b := make([]byte, len(s))
	for i, c := range s {
		cb, ok := c.(uint8)
		if !ok {
			return s
		}
		b[i] = cb
	}
	return string(b)
}

func byteEq(a, b value) *Expr { return mkEq(toExpr(a), toExpr(b)) }

func symStrEq(a, b symstr) *Expr {
	if len(a) != len(b) {
		return falseE
	}
	r := trueE
	for i := range a {
		r = mkAnd(r, byteEq(a[i], b[i]))
	}
	return r
}

// symStrLess returns a < b (lexicographic, bytewise).
func symStrLess(a, b symstr) *Expr {
	// less(i) = i==len(a) ? i<len(b) : i==len(b) ? false : a[i]<b[i] || (a[i]==b[i] && less(i+1))
	n := len(a)
	if len(b) < n {
		n = len(b)
	}
	r := boolConst(len(a) < len(b)) // all common bytes equal
	for i := n - 1; i >= 0; i-- {
		ai, bi := toExpr(a[i]), toExpr(b[i])
		r = mkOr(bvCmp("bvult", ai, bi), mkAnd(mkEq(ai, bi), r))
	}
	return r
}

func symStrBinop(op token.Token, a, b symstr) value {
	switch op {
	case token.ADD:
		r := make(symstr, 0, len(a)+len(b))
		r = append(r, a...)
		r = append(r, b...)
		return normStr(r)
	case token.EQL:
		return fromExpr(symStrEq(a, b), types.Bool)
	case token.NEQ:
		return fromExpr(mkNot(symStrEq(a, b)), types.Bool)
	case token.LSS:
		return fromExpr(symStrLess(a, b), types.Bool)
	case token.GTR:
		return fromExpr(symStrLess(b, a), types.Bool)
	case token.LEQ:
		return fromExpr(mkNot(symStrLess(b, a)), types.Bool)
	case token.GEQ:
		return fromExpr(mkNot(symStrLess(a, b)), types.Bool)
	}
	panic(unsupported{"symStrBinop " + op.String()})
}

// rtError is the payload of a target runtime panic raised by the interpreter.
type rtError string

func (e rtError) String() string { return "runtime error: " + string(e) }

// float helpers used by intrinsics
func f64bits(f float64) uint64 { return math.Float64bits(f) }

// convSym handles conversions whose operand is symbolic.
func convSym(i *interpreter, t_dst, t_src types.Type, x value) (value, bool) {
	switch x := x.(type) {
	case symv:
		if db, ok := t_dst.Underlying().(*types.Basic); ok {
			if db.Kind() == types.String {
				panic(unsupported{"string(symbolic integer)"})
			}
			if db.Kind() == types.UnsafePointer {
				panic(unsupported{"unsafe.Pointer(symbolic)"})
			}
			return symConv(x, db.Kind()), true
		}
		panic(unsupported{fmt.Sprintf("convert symbolic scalar to %s", t_dst)})
	case symstr:
		switch d := t_dst.Underlying().(type) {
		case *types.Basic:
			if d.Kind() == types.String {
				return x, true
			}
		case *types.Slice:
			if eb, ok := d.Elem().Underlying().(*types.Basic); ok {
				switch eb.Kind() {
				case types.Byte:
					return append([]value(nil), x...), true
				case types.Rune:
					var res []value
					it := &strIter{i: i, s: x}
					for {
						t := it.next()
						if !t[0].(bool) {
							break
						}
						res = append(res, t[2])
					}
					return res, true
				}
			}
		}
		panic(unsupported{fmt.Sprintf("convert symbolic string to %s", t_dst)})
	case []value:
		// []byte with symbolic bytes -> string is handled in conv via normStr;
		// []rune with symbolic runes:
		if sb, ok := t_src.Underlying().(*types.Slice); ok {
			if eb, ok := sb.Elem().Underlying().(*types.Basic); ok && eb.Kind() == types.Rune {
				out := make(symstr, 0, len(x))
				anySym := false
				for _, r := range x {
					if sv, ok := r.(symv); ok {
						anySym = true
						if !i.branch(bvCmp("bvult", sv.e, bvConst(32, 0x80))) {
							panic(unsupported{"string([]rune) with symbolic non-ASCII rune"})
						}
						out = append(out, symConv(sv, types.Uint8))
					} else if r.(int32) < 0x80 {
						out = append(out, uint8(r.(int32)))
					} else {
						for _, b := range []byte(string(rune(r.(int32)))) {
							out = append(out, b)
						}
					}
				}
				if anySym {
					return normStr(out), true
				}
			}
		}
	}
	return nil, false
}
