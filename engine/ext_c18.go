package main

// Engine additions for the C18 / C14 side-plugin harnesses (memory-qos,
// memtierd, sgx-epc).
//
//  1. Derived map order. The plugins resolve annotations in two range
//     loops: effectiveAnnotations() ranges over the pod's annotation map and
//     builds a fresh map, CreateContainer() ranges over that fresh map. A
//     harness can only mark the first map with verifMapOrder. The wrappers
//     below run the real SSA body of effectiveAnnotations and mark its result
//     as solver-ordered whenever the pod's annotation map is, so that every
//     pair of iteration orders of the two loops is explored.
//
//  2. "error" stubs for filesystem functions. A unit that configures
//     "stubs": {"path/filepath.WalkDir": "error"} gets a callee that returns
//     zero values and a non-nil error without running (native replay must be
//     arranged by the harness so that the real call fails as well, e.g. a
//     non-existent directory). Without that configuration the functions stay
//     unsupported, exactly as before.

import (
	"go/types"
	"strings"

	"golang.org/x/tools/go/ssa"
)

func init() {
	for _, name := range []string{
		"github.com/containers/nri-plugins/cmd/plugins/memory-qos.effectiveAnnotations",
		"github.com/containers/nri-plugins/cmd/plugins/memtierd.effectiveAnnotations",
	} {
		externals[name] = extDerivedMapOrder
	}
	for _, name := range []string{
		"path/filepath.WalkDir",
		"path/filepath.Walk",
		"os.MkdirAll",
		"os.WriteFile",
		"os.ReadFile",
	} {
		externals[name] = extErrorStub(name)
	}
}

// runSSABody interprets the real body of fr.fn (the frame callSSA prepared
// before it dispatched to an external).
func runSSABody(fr *frame, args []value) value {
	i, fn := fr.i, fr.fn
	if fn.Blocks == nil {
		panic(unsupported{"no code for function: " + fn.String()})
	}
	if fn.Pkg != nil {
		i.ensureInit(fn.Pkg)
		if strings.HasPrefix(fn.Pkg.Pkg.Path(), i.lp.cfg.repoModule) {
			i.funcsSeen[fn.String()] = true
		}
	}
	fr.env = make(map[ssa.Value]value)
	fr.block = fn.Blocks[0]
	fr.locals = make([]value, len(fn.Locals))
	for k, l := range fn.Locals {
		fr.locals[k] = zero(mustDeref(l.Type()))
		fr.env[l] = &fr.locals[k]
	}
	for k, p := range fn.Params {
		fr.env[p] = args[k]
	}
	for fr.block != nil {
		runFrame(fr)
	}
	return fr.result
}

// hasRandomOrderMap reports whether v is, or is a pointer to a struct with a
// field that is, a map marked by verifMapOrder.
func hasRandomOrderMap(v value) bool {
	switch v := v.(type) {
	case *omap:
		return v != nil && v.randomOrder
	case *value:
		if v == nil {
			return false
		}
		if st, ok := (*v).(structure); ok {
			for _, f := range st {
				if m, ok := f.(*omap); ok && m != nil && m.randomOrder {
					return true
				}
			}
		}
	}
	return false
}

func extDerivedMapOrder(fr *frame, args []value) value {
	res := runSSABody(fr, args)
	derived := false
	for _, a := range args {
		if hasRandomOrderMap(a) {
			derived = true
		}
	}
	if m, ok := res.(*omap); ok && m != nil && derived {
		m.randomOrder = true
	}
	return res
}

// extErrorStub: see (2) above.
func extErrorStub(name string) externalFn {
	return func(fr *frame, args []value) value {
		if fr.i.lp.cfg.stubs[name] != "error" {
			panic(unsupported{"no model for " + name + " (configure the stub \"error\" or avoid the call)"})
		}
		sig := fr.fn.Signature
		res := zeroResults(sig)
		n := sig.Results().Len()
		if n == 0 {
			return res
		}
		last := sig.Results().At(n - 1).Type()
		if !types.Identical(last, types.Universe.Lookup("error").Type()) {
			return res
		}
		err := fr.i.newErrorV("stubbed " + name + ": no such file or directory")
		if n == 1 {
			return err
		}
		t := res.(tuple)
		t[n-1] = err
		return t
	}
}
