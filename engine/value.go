// Copyright 2013 The Go Authors. All rights reserved.
// Use of this source code is governed by a BSD-style
// license that can be found in the LICENSE file (LICENSE.x-tools).
//
// Derived from golang.org/x/tools/go/ssa/interp/value.go; see interp.go.

package main

// Values
//
// All interpreter values are "boxed" in the empty interface, value.
// The range of possible dynamic types within value are:
//
// - bool, numbers (all built-in int/float types are distinguished)
// - symv --- a symbolic scalar (SMT term + Go basic kind)
// - string, symstr (string with symbolic bytes, concrete length)
// - *omap --- maps (ordered)
// - *channel
// - []value --- slices
// - iface --- interfaces.
// - structure --- structs.  Fields are ordered and accessed by numeric indices.
// - array --- arrays.
// - *value --- pointers.  Careful: *value is a distinct type from *array etc.
// - *ssa.Function \
//   *ssa.Builtin   } --- functions.  A nil 'func' is always of type *ssa.Function.
//   *closure      /
// - tuple --- as returned by Return, Next, "value,ok" modes, etc.
// - iter --- iterators from 'range' over map or string.
// - cpusetv --- modelled k8s cpuset (bit vector)
// - opaque --- modelled opaque object (e.g. a stubbed library handle)

import (
	"bytes"
	"fmt"
	"go/types"
	"unsafe"

	"golang.org/x/tools/go/ssa"
)

type value interface{}

type tuple []value

type array []value

type iface struct {
	t types.Type // never an "untyped" type
	v value
}

type structure []value

// For map, array, *array, slice, string or channel.
type iter interface {
	// next returns a Tuple (key, value, ok).
	// key and value are unaliased, e.g. copies of the sequence element.
	next() tuple
}

type closure struct {
	Fn  *ssa.Function
	Env []value
	ext externalFn // engine-provided function value (Fn == nil)
}

// nil-tolerant variant of types.Identical.
func sameType(x, y types.Type) bool {
	if x == nil {
		return y == nil
	}
	return y != nil && types.Identical(x, y)
}

// equalsExpr returns the Go equality x == y for type t as a Bool term
// (constant when both are concrete).
func equalsExpr(t types.Type, x, y value) *Expr {
	switch x := x.(type) {
	case symv:
		return symEqScalar(x, y)
	case opaqstr:
		return opaqEq(x, y)
	case symstr:
		if yo, ok := y.(opaqstr); ok {
			return opaqEq(yo, x)
		}
		return symStrEq(x, toSymstr(y))
	case string:
		if yo, ok := y.(opaqstr); ok {
			return opaqEq(yo, x)
		}
		if ys, ok := y.(symstr); ok {
			return symStrEq(toSymstr(x), ys)
		}
		return boolConst(x == y.(string))
	case *value:
		return boolConst(x == y.(*value))
	case *channel:
		return boolConst(x == y.(*channel))
	case structure:
		y := y.(structure)
		tStruct := t.Underlying().(*types.Struct)
		r := trueE
		for i, n := 0, tStruct.NumFields(); i < n; i++ {
			if f := tStruct.Field(i); f.Name() != "_" {
				r = mkAnd(r, equalsExpr(f.Type(), x[i], y[i]))
			}
		}
		return r
	case array:
		y := y.(array)
		tElt := t.Underlying().(*types.Array).Elem()
		r := trueE
		for i, xi := range x {
			r = mkAnd(r, equalsExpr(tElt, xi, y[i]))
		}
		return r
	case iface:
		y := y.(iface)
		if !sameType(x.t, y.t) {
			return falseE
		}
		if x.t == nil {
			return trueE
		}
		if !types.Comparable(x.t) {
			panic(targetPanic{v: rtError("comparing uncomparable type " + x.t.String())})
		}
		return equalsExpr(x.t, x.v, y.v)
	case unsafe.Pointer:
		return boolConst(x == y.(unsafe.Pointer))
	}
	if _, ok := y.(symv); ok {
		return symEqScalar(x, y)
	}
	if _, ok := kindOf(x); ok {
		return boolConst(x == y)
	}
	// Since map, func and slice don't support comparison, this
	// case is only reachable if one of x or y is literally nil
	// (handled in eqnil) or via interface{} values.
	panic(fmt.Sprintf("comparing uncomparable type %s (%T)", t, x))
}

// opaqEq compares the string form of a symbolic cpuset with another string.
func opaqEq(x opaqstr, y value) *Expr {
	switch y := y.(type) {
	case opaqstr:
		if y.tag != x.tag {
			panic(unsupported{"comparison of different opaque strings"})
		}
		return mkEq(x.e, y.e)
	case string:
		m, err := cpusetParse(y)
		if err != nil || cpusetString(m) != y {
			return falseE // not a canonical cpuset string
		}
		return mkEq(x.e, bvConst(cpusetWidth, m))
	}
	panic(unsupported{"comparison of the string form of a symbolic cpuset with a symbolic string"})
}

func symEqScalar(x, y value) *Expr {
	ex, ey := toExpr(x), toExpr(y)
	if ex.sort.k == sFP32 || ex.sort.k == sFP64 {
		return fpCmp("fp.eq", ex, ey)
	}
	return mkEq(ex, ey)
}

// load returns the value of type T in *addr.
func load(T types.Type, addr *value) value {
	switch T := T.Underlying().(type) {
	case *types.Struct:
		v, ok := (*addr).(structure)
		if !ok {
			return *addr // modelled value (cpuset)
		}
		a := make(structure, len(v))
		for i := range a {
			a[i] = load(T.Field(i).Type(), &v[i])
		}
		return a
	case *types.Array:
		v := (*addr).(array)
		a := make(array, len(v))
		for i := range a {
			a[i] = load(T.Elem(), &v[i])
		}
		return a
	default:
		return *addr
	}
}

// store stores value v of type T into *addr.
func store(T types.Type, addr *value, v value) {
	switch T := T.Underlying().(type) {
	case *types.Struct:
		lhs, ok1 := (*addr).(structure)
		rhs, ok2 := v.(structure)
		if !ok1 || !ok2 {
			*addr = v // modelled value (cpuset)
			return
		}
		for i := range lhs {
			store(T.Field(i).Type(), &lhs[i], rhs[i])
		}
	case *types.Array:
		lhs := (*addr).(array)
		rhs := v.(array)
		for i := range lhs {
			store(T.Elem(), &lhs[i], rhs[i])
		}
	default:
		*addr = v
	}
}

// Prints in the style of built-in println.
func writeValue(buf *bytes.Buffer, v value, depth int) {
	if depth > 6 {
		buf.WriteString("…")
		return
	}
	switch v := v.(type) {
	case nil, bool, int, int8, int16, int32, int64, uint, uint8, uint16, uint32, uint64, uintptr, float32, float64, complex64, complex128, string:
		fmt.Fprintf(buf, "%v", v)

	case symv:
		fmt.Fprintf(buf, "<sym %s>", v.e)

	case opaqstr:
		fmt.Fprintf(buf, "<%s-string>", v.tag)

	case symstr:
		buf.WriteString("<symstr ")
		for _, c := range v {
			if b, ok := c.(uint8); ok {
				buf.WriteByte(b)
			} else {
				buf.WriteString("?")
			}
		}
		buf.WriteString(">")

	case *omap:
		buf.WriteString("map[")
		if v != nil {
			for j, e := range v.entries {
				if j > 0 {
					buf.WriteString(" ")
				}
				writeValue(buf, e.key, depth+1)
				buf.WriteString(":")
				writeValue(buf, e.val, depth+1)
			}
		}
		buf.WriteString("]")

	case *channel:
		fmt.Fprintf(buf, "chan(%p)", v)

	case *value:
		if v == nil {
			buf.WriteString("<nil>")
		} else {
			fmt.Fprintf(buf, "%p", v)
		}

	case iface:
		fmt.Fprintf(buf, "(%s, ", v.t)
		writeValue(buf, v.v, depth+1)
		buf.WriteString(")")

	case structure:
		buf.WriteString("{")
		for i, e := range v {
			if i > 0 {
				buf.WriteString(" ")
			}
			writeValue(buf, e, depth+1)
		}
		buf.WriteString("}")

	case array:
		buf.WriteString("[")
		for i, e := range v {
			if i > 0 {
				buf.WriteString(" ")
			}
			writeValue(buf, e, depth+1)
		}
		buf.WriteString("]")

	case []value:
		buf.WriteString("[")
		for i, e := range v {
			if i > 0 {
				buf.WriteString(" ")
			}
			writeValue(buf, e, depth+1)
		}
		buf.WriteString("]")

	case *ssa.Function, *ssa.Builtin, *closure:
		fmt.Fprintf(buf, "%p", v) // (an address)

	case tuple:
		// Unreachable in well-formed Go programs
		buf.WriteString("(")
		for i, e := range v {
			if i > 0 {
				buf.WriteString(", ")
			}
			writeValue(buf, e, depth+1)
		}
		buf.WriteString(")")

	default:
		fmt.Fprintf(buf, "<%T>", v)
	}
}

// Implements printing of Go values in the style of built-in println.
func toString(v value) string {
	var b bytes.Buffer
	writeValue(&b, v, 0)
	return b.String()
}

// ------------------------------------------------------------------------
// Iterators

// strIter ranges over a string (possibly with symbolic bytes, which must be
// ASCII: a fork decides that, non-ASCII symbolic bytes are unsupported).
type strIter struct {
	i   *interpreter
	s   symstr
	pos int
}

func (it *strIter) next() tuple {
	if it.pos >= len(it.s) {
		return tuple{false, nil, nil}
	}
	c := it.s[it.pos]
	if b, ok := c.(uint8); ok && b >= 0x80 {
		// concrete multi-byte rune: decode natively
		raw := make([]byte, 0, 4)
		for j := it.pos; j < len(it.s) && j < it.pos+4; j++ {
			cb, ok := it.s[j].(uint8)
			if !ok {
				break
			}
			raw = append(raw, cb)
		}
		r, n := decodeRune(raw)
		k := it.pos
		it.pos += n
		return tuple{true, k, r}
	}
	k := it.pos
	it.pos++
	if sv, ok := c.(symv); ok {
		if !it.i.branch(bvCmp("bvult", sv.e, bvConst(8, 0x80))) {
			panic(unsupported{"range over string with symbolic non-ASCII byte"})
		}
		return tuple{true, k, symConv(sv, types.Int32)}
	}
	return tuple{true, k, int32(c.(uint8))}
}

func decodeRune(b []byte) (rune, int) {
	for i, r := range string(b) {
		_ = i
		n := len(string(r))
		if r == 0xFFFD {
			n = 1
		}
		return r, n
	}
	return 0xFFFD, 1
}
