package main

// Channels and goroutines: only what sequential execution can give.
// A channel is a FIFO buffer; a receive from an empty open channel or a
// send to a full one would block forever in a single thread and is reported
// as unsupported. `go f()` runs f to completion at the spawn point when the
// harness configuration allows it ("inlineGo"), else is unsupported.

import (
	"fmt"
	"go/token"
	"go/types"

	"golang.org/x/tools/go/ssa"
)

type channel struct {
	buf    []value
	cap    int
	closed bool
}

func makeChan(size int64) *channel { return &channel{cap: int(size)} }

func (c *channel) length() int {
	if c == nil {
		return 0
	}
	return len(c.buf)
}

func chanSend(i *interpreter, ch, v value) {
	c := ch.(*channel)
	if c == nil {
		panic(unsupported{"send on nil channel (blocks forever)"})
	}
	if c.closed {
		panic(targetPanic{v: rtError("send on closed channel")})
	}
	if i.parkedOn[c] {
		panic(unsupported{"send on a channel a parked goroutine waits for"})
	}
	if len(c.buf) >= c.cap && c.cap > 0 {
		panic(unsupported{"send on full channel (would block)"})
	}
	if c.cap == 0 && i.lp.cfg.deferGo {
		panic(unsupported{"send on unbuffered channel with deferred goroutines"})
	}
	// unbuffered channels are treated as rendezvous with a later receiver
	c.buf = append(c.buf, v)
}

func chanRecv(i *interpreter, instr *ssa.UnOp, ch value) value {
	c := ch.(*channel)
	if c == nil {
		panic(unsupported{"receive from nil channel (blocks forever)"})
	}
	if i.parkedOn[c] {
		panic(unsupported{"receive from a channel a parked goroutine waits for"})
	}
	if len(c.buf) == 0 && !c.closed && i.lp.cfg.deferGo && i.goDepth == 0 {
		// the main thread would block: let the queued goroutines run first
		i.runPendingGo()
	}
	var v value
	ok := true
	if len(c.buf) > 0 {
		v = c.buf[0]
		c.buf = c.buf[1:]
	} else if c.closed {
		v = zero(instr.X.Type().Underlying().(*types.Chan).Elem())
		ok = false
	} else {
		i.wouldBlock(c, "receive from empty open channel (would block)")
	}
	if instr.CommaOk {
		return tuple{v, ok}
	}
	return v
}

func chanClose(i *interpreter, ch value) {
	c := ch.(*channel)
	if c == nil {
		panic(targetPanic{v: rtError("close of nil channel")})
	}
	if c.closed {
		panic(targetPanic{v: rtError("close of closed channel")})
	}
	if i.parkedOn[c] {
		panic(unsupported{"close of a channel a parked goroutine waits for"})
	}
	c.closed = true
}

// Deferred goroutines ("deferGo"): `go f()` queues f. Queued goroutines run,
// each to completion or until it blocks, when the harness calls
// verifRunGoroutines() or when the main thread would block on a receive. So a
// harness decides (by a solver choice) whether the code after the `go` runs
// before or after the goroutine. A goroutine that blocks is parked for good;
// any later operation on the channel it waits for is unsupported (it would
// have to resume). The main thread blocking with nothing left to run is a
// deadlock: verifCompletes(f) reports it as false.
type pendingGo struct {
	fr   *frame
	pos  token.Pos
	fn   value
	args []value
}

type goBlocked struct {
	ch   *channel
	main bool
}

func (i *interpreter) runPendingGo() {
	for len(i.pendingGo) > 0 {
		g := i.pendingGo[0]
		i.pendingGo = i.pendingGo[1:]
		func() {
			i.goDepth++
			defer func() {
				i.goDepth--
				if p := recover(); p != nil {
					if gb, ok := p.(goBlocked); ok && !gb.main {
						if i.parkedOn == nil {
							i.parkedOn = map[*channel]bool{}
						}
						i.parkedOn[gb.ch] = true
						return
					}
					panic(p)
				}
			}()
			call(i, g.fr, g.pos, g.fn, g.args)
		}()
	}
}

func (i *interpreter) wouldBlock(c *channel, what string) {
	if !i.lp.cfg.deferGo {
		panic(unsupported{what})
	}
	if i.goDepth > 0 {
		panic(goBlocked{ch: c})
	}
	panic(goBlocked{ch: c, main: true})
}

func goStmt(i *interpreter, fr *frame, instr *ssa.Go, fn value, args []value) {
	if i.lp.cfg.deferGo {
		i.pendingGo = append(i.pendingGo, pendingGo{fr: fr, pos: instr.Pos(), fn: fn, args: args})
		return
	}
	if !i.lp.cfg.inlineGo {
		panic(unsupported{fmt.Sprintf("go statement in %s", fr.fn)})
	}
	call(i, fr, instr.Pos(), fn, args)
}

func selectStmt(i *interpreter, fr *frame, instr *ssa.Select) value {
	panic(unsupported{fmt.Sprintf("select statement in %s", fr.fn)})
}
