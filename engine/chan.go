package main

// Channels and goroutines: only what sequential execution can give.
// A channel is a FIFO buffer; a receive from an empty open channel or a
// send to a full one would block forever in a single thread and is reported
// as unsupported. `go f()` runs f to completion at the spawn point when the
// harness configuration allows it ("inlineGo"), else is unsupported.

import (
	"fmt"
	"go/types"

	"golang.org/x/tools/go/ssa"
)

type channel struct {
	buf    []value
	cap    int
	closed bool
}

func makeChan(size int64) *channel { return &channel{cap: int(size)} }

func (c *channel) length() int {
	if c == nil {
		return 0
	}
	return len(c.buf)
}

func chanSend(i *interpreter, ch, v value) {
	c := ch.(*channel)
	if c == nil {
		panic(unsupported{"send on nil channel (blocks forever)"})
	}
	if c.closed {
		panic(targetPanic{v: rtError("send on closed channel")})
	}
	if len(c.buf) >= c.cap && c.cap > 0 {
		panic(unsupported{"send on full channel (would block)"})
	}
	// unbuffered channels are treated as rendezvous with a later receiver
	c.buf = append(c.buf, v)
}

func chanRecv(i *interpreter, instr *ssa.UnOp, ch value) value {
	c := ch.(*channel)
	if c == nil {
		panic(unsupported{"receive from nil channel (blocks forever)"})
	}
	var v value
	ok := true
	if len(c.buf) > 0 {
		v = c.buf[0]
		c.buf = c.buf[1:]
	} else if c.closed {
		v = zero(instr.X.Type().Underlying().(*types.Chan).Elem())
		ok = false
	} else {
		panic(unsupported{"receive from empty open channel (would block)"})
	}
	if instr.CommaOk {
		return tuple{v, ok}
	}
	return v
}

func chanClose(i *interpreter, ch value) {
	c := ch.(*channel)
	if c == nil {
		panic(targetPanic{v: rtError("close of nil channel")})
	}
	if c.closed {
		panic(targetPanic{v: rtError("close of closed channel")})
	}
	c.closed = true
}

func goStmt(i *interpreter, fr *frame, instr *ssa.Go, fn value, args []value) {
	if !i.lp.cfg.inlineGo {
		panic(unsupported{fmt.Sprintf("go statement in %s", fr.fn)})
	}
	call(i, fr, instr.Pos(), fn, args)
}

func selectStmt(i *interpreter, fr *frame, instr *ssa.Select) value {
	panic(unsupported{fmt.Sprintf("select statement in %s", fr.fn)})
}
