package main

// SMT expression DAG, constant folding, SMT-LIB2 printing.

import (
	"fmt"
	"math"
	"math/bits"
	"strings"
)

type sortKind int

const (
	sBool sortKind = iota
	sBV
	sFP32
	sFP64
)

type Sort struct {
	k sortKind
	w int
}

func (s Sort) String() string {
	switch s.k {
	case sBool:
		return "Bool"
	case sBV:
		return fmt.Sprintf("(_ BitVec %d)", s.w)
	case sFP32:
		return "(_ FloatingPoint 8 24)"
	case sFP64:
		return "(_ FloatingPoint 11 53)"
	}
	return "?"
}

func bvSort(w int) Sort { return Sort{sBV, w} }

var boolSort = Sort{sBool, 0}

type Expr struct {
	op     string // "const", "var", or SMT operator
	sort   Sort
	args   []*Expr
	params []int
	bv     uint64  // const BV
	b      bool    // const Bool
	f      float64 // const FP
	name   string  // var
	id     int64
	h1, h2 uint64 // memoized structural hash (0 = not computed)
}

type exprKey struct{ a, b uint64 }

func mix(h, v uint64) uint64 {
	h ^= v + 0x9e3779b97f4a7c15 + (h << 6) + (h >> 2)
	h *= 0xff51afd7ed558ccd
	h ^= h >> 33
	return h
}

func hashStr(s string, seed uint64) uint64 {
	h := seed
	for i := 0; i < len(s); i++ {
		h = (h ^ uint64(s[i])) * 1099511628211
	}
	return h
}

// key returns a 128-bit structural hash of e (equal structure => equal key).
func (e *Expr) key() exprKey {
	if e.h1 != 0 || e.h2 != 0 {
		return exprKey{e.h1, e.h2}
	}
	a := hashStr(e.op, 14695981039346656037)
	b := hashStr(e.op, 0x2545F4914F6CDD1D)
	a = mix(a, uint64(e.sort.k)<<8|uint64(e.sort.w))
	b = mix(b, uint64(e.sort.w)<<8|uint64(e.sort.k))
	switch e.op {
	case "const":
		v := e.bv
		if e.sort.k == sBool {
			if e.b {
				v = 1
			}
		} else if e.sort.k != sBV {
			v = math.Float64bits(e.f)
		}
		a, b = mix(a, v), mix(b, ^v)
	case "var":
		a, b = mix(a, hashStr(e.name, 7)), mix(b, hashStr(e.name, 13))
	default:
		for _, p := range e.params {
			a, b = mix(a, uint64(p)), mix(b, uint64(p)+77)
		}
		for _, c := range e.args {
			k := c.key()
			a, b = mix(a, k.a), mix(b, k.b)
		}
	}
	if a == 0 && b == 0 {
		a = 1
	}
	if e.op != "const" { // shared constants are not written to (races)
		e.h1, e.h2 = a, b
	}
	return exprKey{a, b}
}

var exprCounter int64

func newExpr(op string, s Sort, args ...*Expr) *Expr {
	// not thread safe counter is fine: ids are only required unique per worker;
	// use atomic-free per-worker uniqueness by pointer identity in the printer.
	return &Expr{op: op, sort: s, args: args}
}

func (e *Expr) isConst() bool { return e.op == "const" }

func mask(w int) uint64 {
	if w >= 64 {
		return ^uint64(0)
	}
	return (uint64(1) << uint(w)) - 1
}

func bvConst(w int, v uint64) *Expr {
	return &Expr{op: "const", sort: bvSort(w), bv: v & mask(w)}
}

func boolConst(b bool) *Expr { return &Expr{op: "const", sort: boolSort, b: b} }

func fpConst(k sortKind, f float64) *Expr { return &Expr{op: "const", sort: Sort{k, 0}, f: f} }

func mkVar(name string, s Sort) *Expr { return &Expr{op: "var", sort: s, name: name} }

var trueE = boolConst(true)
var falseE = boolConst(false)

func signExt(w int, v uint64) int64 {
	if w >= 64 {
		return int64(v)
	}
	sh := uint(64 - w)
	return int64(v<<sh) >> sh
}

// ---------- boolean constructors

func mkNot(a *Expr) *Expr {
	if a.isConst() {
		return boolConst(!a.b)
	}
	if a.op == "not" {
		return a.args[0]
	}
	return newExpr("not", boolSort, a)
}

func mkAnd(a, b *Expr) *Expr {
	if a.isConst() {
		if a.b {
			return b
		}
		return falseE
	}
	if b.isConst() {
		if b.b {
			return a
		}
		return falseE
	}
	return newExpr("and", boolSort, a, b)
}

func mkOr(a, b *Expr) *Expr {
	if a.isConst() {
		if a.b {
			return trueE
		}
		return b
	}
	if b.isConst() {
		if b.b {
			return trueE
		}
		return a
	}
	return newExpr("or", boolSort, a, b)
}

func mkImplies(a, b *Expr) *Expr { return mkOr(mkNot(a), b) }

func mkAndN(xs ...*Expr) *Expr {
	r := trueE
	for _, x := range xs {
		r = mkAnd(r, x)
	}
	return r
}

func mkIte(c, a, b *Expr) *Expr {
	if c.isConst() {
		if c.b {
			return a
		}
		return b
	}
	if a == b {
		return a
	}
	if a.isConst() && b.isConst() && a.sort == b.sort {
		switch a.sort.k {
		case sBool:
			if a.b == b.b {
				return a
			}
			if a.b {
				return c
			}
			return mkNot(c)
		case sBV:
			if a.bv == b.bv {
				return a
			}
		}
	}
	return newExpr("ite", a.sort, c, a, b)
}

func mkEq(a, b *Expr) *Expr {
	if a.sort != b.sort {
		panic(fmt.Sprintf("mkEq: sort mismatch %v %v", a.sort, b.sort))
	}
	if a == b && a.sort.k != sFP32 && a.sort.k != sFP64 {
		return trueE
	}
	if a.isConst() && b.isConst() {
		switch a.sort.k {
		case sBool:
			return boolConst(a.b == b.b)
		case sBV:
			return boolConst(a.bv == b.bv)
		default:
			return boolConst(a.f == b.f)
		}
	}
	if a.sort.k == sFP32 || a.sort.k == sFP64 {
		return newExpr("fp.eq", boolSort, a, b)
	}
	if a.sort.k == sBool {
		if a.isConst() {
			if a.b {
				return b
			}
			return mkNot(b)
		}
		if b.isConst() {
			if b.b {
				return a
			}
			return mkNot(a)
		}
	}
	return newExpr("=", boolSort, a, b)
}

// ---------- bit-vector constructors

func bvBin(op string, a, b *Expr) *Expr {
	if a.sort != b.sort || a.sort.k != sBV {
		panic(fmt.Sprintf("bvBin %s: sort mismatch %v %v", op, a.sort, b.sort))
	}
	w := a.sort.w
	if a.isConst() && b.isConst() {
		x, y := a.bv, b.bv
		m := mask(w)
		switch op {
		case "bvadd":
			return bvConst(w, x+y)
		case "bvsub":
			return bvConst(w, x-y)
		case "bvmul":
			return bvConst(w, x*y)
		case "bvand":
			return bvConst(w, x&y)
		case "bvor":
			return bvConst(w, x|y)
		case "bvxor":
			return bvConst(w, x^y)
		case "bvudiv":
			if y == 0 {
				return bvConst(w, m)
			}
			return bvConst(w, x/y)
		case "bvurem":
			if y == 0 {
				return bvConst(w, x)
			}
			return bvConst(w, x%y)
		case "bvsdiv":
			if y == 0 {
				break
			}
			sx, sy := signExt(w, x), signExt(w, y)
			if sy == -1 {
				return bvConst(w, uint64(-sx))
			}
			return bvConst(w, uint64(sx/sy))
		case "bvsrem":
			if y == 0 {
				break
			}
			sx, sy := signExt(w, x), signExt(w, y)
			if sy == -1 {
				return bvConst(w, 0)
			}
			return bvConst(w, uint64(sx%sy))
		case "bvshl":
			if y >= uint64(w) {
				return bvConst(w, 0)
			}
			return bvConst(w, x<<y)
		case "bvlshr":
			if y >= uint64(w) {
				return bvConst(w, 0)
			}
			return bvConst(w, x>>y)
		case "bvashr":
			sx := signExt(w, x)
			if y >= uint64(w) {
				y = uint64(w - 1)
			}
			return bvConst(w, uint64(sx>>y))
		}
	}
	// simple identities
	switch op {
	case "bvand":
		if a.isConst() && a.bv == 0 || b.isConst() && b.bv == 0 {
			return bvConst(w, 0)
		}
		if a.isConst() && a.bv == mask(w) {
			return b
		}
		if b.isConst() && b.bv == mask(w) {
			return a
		}
		if a == b {
			return a
		}
	case "bvor":
		if a.isConst() && a.bv == 0 {
			return b
		}
		if b.isConst() && b.bv == 0 {
			return a
		}
		if a == b {
			return a
		}
	case "bvadd", "bvxor":
		if a.isConst() && a.bv == 0 {
			return b
		}
		if b.isConst() && b.bv == 0 {
			return a
		}
	case "bvsub", "bvshl", "bvlshr", "bvashr":
		if b.isConst() && b.bv == 0 {
			return a
		}
	case "bvmul":
		if a.isConst() && a.bv == 1 {
			return b
		}
		if b.isConst() && b.bv == 1 {
			return a
		}
		if a.isConst() && a.bv == 0 || b.isConst() && b.bv == 0 {
			return bvConst(w, 0)
		}
	}
	return newExpr(op, a.sort, a, b)
}

func bvNot(a *Expr) *Expr {
	if a.isConst() {
		return bvConst(a.sort.w, ^a.bv)
	}
	return newExpr("bvnot", a.sort, a)
}

func bvNeg(a *Expr) *Expr {
	if a.isConst() {
		return bvConst(a.sort.w, -a.bv)
	}
	return newExpr("bvneg", a.sort, a)
}

func bvCmp(op string, a, b *Expr) *Expr {
	if a.sort != b.sort || a.sort.k != sBV {
		panic(fmt.Sprintf("bvCmp %s: sort mismatch %v %v", op, a.sort, b.sort))
	}
	w := a.sort.w
	if a.isConst() && b.isConst() {
		x, y := a.bv, b.bv
		sx, sy := signExt(w, x), signExt(w, y)
		switch op {
		case "bvult":
			return boolConst(x < y)
		case "bvule":
			return boolConst(x <= y)
		case "bvugt":
			return boolConst(x > y)
		case "bvuge":
			return boolConst(x >= y)
		case "bvslt":
			return boolConst(sx < sy)
		case "bvsle":
			return boolConst(sx <= sy)
		case "bvsgt":
			return boolConst(sx > sy)
		case "bvsge":
			return boolConst(sx >= sy)
		}
	}
	return newExpr(op, boolSort, a, b)
}

func bvExtract(hi, lo int, a *Expr) *Expr {
	w := hi - lo + 1
	if a.isConst() {
		return bvConst(w, a.bv>>uint(lo))
	}
	if lo == 0 && w == a.sort.w {
		return a
	}
	e := newExpr("extract", bvSort(w), a)
	e.params = []int{hi, lo}
	return e
}

func bvZeroExt(n int, a *Expr) *Expr {
	if n == 0 {
		return a
	}
	if a.isConst() {
		return bvConst(a.sort.w+n, a.bv)
	}
	e := newExpr("zero_extend", bvSort(a.sort.w+n), a)
	e.params = []int{n}
	return e
}

func bvSignExt(n int, a *Expr) *Expr {
	if n == 0 {
		return a
	}
	if a.isConst() {
		return bvConst(a.sort.w+n, uint64(signExt(a.sort.w, a.bv)))
	}
	e := newExpr("sign_extend", bvSort(a.sort.w+n), a)
	e.params = []int{n}
	return e
}

// bvResize converts a to width w (truncating, or extending by signedness).
func bvResize(a *Expr, w int, signed bool) *Expr {
	aw := a.sort.w
	switch {
	case aw == w:
		return a
	case aw > w:
		return bvExtract(w-1, 0, a)
	case signed:
		return bvSignExt(w-aw, a)
	default:
		return bvZeroExt(w-aw, a)
	}
}

// maybeOnes returns a mask of the bits of BV expression e that can be 1
// (a cheap syntactic over-approximation).
func maybeOnes(e *Expr, depth int) uint64 {
	w := e.sort.w
	all := mask(w)
	if depth > 40 {
		return all
	}
	switch e.op {
	case "const":
		return e.bv
	case "zero_extend":
		return maybeOnes(e.args[0], depth+1)
	case "bvand":
		return maybeOnes(e.args[0], depth+1) & maybeOnes(e.args[1], depth+1)
	case "bvor", "bvxor":
		return maybeOnes(e.args[0], depth+1) | maybeOnes(e.args[1], depth+1)
	case "ite":
		return maybeOnes(e.args[1], depth+1) | maybeOnes(e.args[2], depth+1)
	case "extract":
		return (maybeOnes(e.args[0], depth+1) >> uint(e.params[1])) & all
	}
	return all
}

// popcount as a sum of bits, result width rw.
func bvPopcount(a *Expr, rw int) *Expr {
	if a.isConst() {
		return bvConst(rw, uint64(bits.OnesCount64(a.bv)))
	}
	may := maybeOnes(a, 0)
	sum := bvConst(rw, 0)
	for i := 0; i < a.sort.w; i++ {
		if may&(1<<uint(i)) == 0 {
			continue
		}
		sum = bvBin("bvadd", sum, bvZeroExt(rw-1, bvExtract(i, i, a)))
	}
	return sum
}

// ---------- floating point

func fpBin(op string, a, b *Expr) *Expr {
	if a.sort != b.sort {
		panic("fpBin sort mismatch")
	}
	if a.isConst() && b.isConst() {
		x, y := a.f, b.f
		var r float64
		ok := true
		switch op {
		case "fp.add":
			r = x + y
		case "fp.sub":
			r = x - y
		case "fp.mul":
			r = x * y
		case "fp.div":
			r = x / y
		default:
			ok = false
		}
		if ok {
			if a.sort.k == sFP32 {
				switch op {
				case "fp.add":
					r = float64(float32(x) + float32(y))
				case "fp.sub":
					r = float64(float32(x) - float32(y))
				case "fp.mul":
					r = float64(float32(x) * float32(y))
				case "fp.div":
					r = float64(float32(x) / float32(y))
				}
			}
			return fpConst(a.sort.k, r)
		}
	}
	e := newExpr(op, a.sort, a, b)
	return e
}

func fpCmp(op string, a, b *Expr) *Expr {
	if a.isConst() && b.isConst() {
		switch op {
		case "fp.lt":
			return boolConst(a.f < b.f)
		case "fp.leq":
			return boolConst(a.f <= b.f)
		case "fp.gt":
			return boolConst(a.f > b.f)
		case "fp.geq":
			return boolConst(a.f >= b.f)
		case "fp.eq":
			return boolConst(a.f == b.f)
		}
	}
	return newExpr(op, boolSort, a, b)
}

func fpNeg(a *Expr) *Expr {
	if a.isConst() {
		return fpConst(a.sort.k, -a.f)
	}
	return newExpr("fp.neg", a.sort, a)
}

// ---------- printing

func bvLit(w int, v uint64) string {
	if w%4 == 0 {
		return fmt.Sprintf("#x%0*x", w/4, v&mask(w))
	}
	return fmt.Sprintf("#b%0*b", w, v&mask(w))
}

func fpLit(k sortKind, f float64) string {
	if k == sFP32 {
		b := math.Float32bits(float32(f))
		return fmt.Sprintf("(fp #b%01b #b%08b #b%023b)", b>>31, (b>>23)&0xff, b&0x7fffff)
	}
	b := math.Float64bits(f)
	return fmt.Sprintf("(fp #b%01b #b%011b #b%052b)", b>>63, (b>>52)&0x7ff, b&0xfffffffffffff)
}

// printer emits define-funs for shared nodes so that output is linear in
// DAG size. It is bound to one solver session (names valid until reset).
type printer struct {
	names map[*Expr]string
	decls map[string]Sort // declared vars in this session
	n     int
	out   *strings.Builder
}

func newPrinter() *printer {
	return &printer{names: map[*Expr]string{}, decls: map[string]Sort{}, out: &strings.Builder{}}
}

func smtName(n string) string { return "|" + strings.ReplaceAll(n, "|", "_") + "|" }

// ref returns an SMT term (a name or literal) for e, emitting needed
// declarations/definitions into p.out.
func (p *printer) ref(e *Expr) string {
	switch e.op {
	case "const":
		switch e.sort.k {
		case sBool:
			if e.b {
				return "true"
			}
			return "false"
		case sBV:
			return bvLit(e.sort.w, e.bv)
		default:
			return fpLit(e.sort.k, e.f)
		}
	case "var":
		if _, ok := p.decls[e.name]; !ok {
			p.decls[e.name] = e.sort
			fmt.Fprintf(p.out, "(declare-const %s %s)\n", smtName(e.name), e.sort)
		}
		return smtName(e.name)
	}
	if n, ok := p.names[e]; ok {
		return n
	}
	args := make([]string, len(e.args))
	for i, a := range e.args {
		args[i] = p.ref(a)
	}
	var body string
	switch e.op {
	case "extract":
		body = fmt.Sprintf("((_ extract %d %d) %s)", e.params[0], e.params[1], args[0])
	case "zero_extend", "sign_extend":
		body = fmt.Sprintf("((_ %s %d) %s)", e.op, e.params[0], args[0])
	case "fp.add", "fp.sub", "fp.mul", "fp.div":
		body = fmt.Sprintf("(%s RNE %s %s)", e.op, args[0], args[1])
	case "to_fp_s": // signed bv -> fp
		body = fmt.Sprintf("((_ to_fp %s) RNE %s)", fpEbSb(e.sort.k), args[0])
	case "to_fp_u":
		body = fmt.Sprintf("((_ to_fp_unsigned %s) RNE %s)", fpEbSb(e.sort.k), args[0])
	case "to_fp_f": // fp -> fp
		body = fmt.Sprintf("((_ to_fp %s) RNE %s)", fpEbSb(e.sort.k), args[0])
	case "fp.to_sbv":
		body = fmt.Sprintf("((_ fp.to_sbv %d) RTZ %s)", e.sort.w, args[0])
	case "fp.to_ubv":
		body = fmt.Sprintf("((_ fp.to_ubv %d) RTZ %s)", e.sort.w, args[0])
	case "fp.roundToIntegral.floor":
		body = fmt.Sprintf("(fp.roundToIntegral RTN %s)", args[0])
	case "fp.roundToIntegral.ceil":
		body = fmt.Sprintf("(fp.roundToIntegral RTP %s)", args[0])
	default:
		body = "(" + e.op + " " + strings.Join(args, " ") + ")"
	}
	p.n++
	name := fmt.Sprintf("e%d", p.n)
	fmt.Fprintf(p.out, "(define-fun %s () %s %s)\n", name, e.sort, body)
	p.names[e] = name
	return name
}

func fpEbSb(k sortKind) string {
	if k == sFP32 {
		return "8 24"
	}
	return "11 53"
}

// String renders e as a stand-alone (tree) term, for diagnostics only.
func (e *Expr) String() string {
	switch e.op {
	case "const":
		switch e.sort.k {
		case sBool:
			return fmt.Sprint(e.b)
		case sBV:
			return fmt.Sprintf("%d", e.bv)
		default:
			return fmt.Sprint(e.f)
		}
	case "var":
		return e.name
	}
	var sb strings.Builder
	sb.WriteString("(" + e.op)
	for _, a := range e.args {
		sb.WriteString(" ")
		s := a.String()
		if len(s) > 200 {
			s = s[:200] + "…"
		}
		sb.WriteString(s)
	}
	sb.WriteString(")")
	return sb.String()
}
