package main

// One long-lived solver process per worker (z3 -in / cvc5 --incremental).

import (
	"bufio"
	"fmt"
	"io"
	"math"
	"os"
	"os/exec"
	"strconv"
	"strings"
	"sync/atomic"
	"time"
)

type solverStats struct {
	feasQueries   int64
	assertQueries int64
	sat, unsat    int64
	unknown       int64
	errors        int64
	nanos         int64
	oneshot       int64
}

var gStats solverStats

type Solver struct {
	kind      string // "z3", "z3-new", "cvc5"
	cmd       *exec.Cmd
	in        io.WriteCloser
	out       *bufio.Reader
	p         *printer
	timeoutMs int
	log       io.Writer
	dead      bool
	hist      strings.Builder // persistent part of the session since reset
	oneshot   *Solver         // second process used non-incrementally
	isOneshot bool
	seq       int
}

// quickMs is the time given to the incremental solver before a query is
// re-run non-incrementally (z3's incremental core does no bit-blasting
// preprocessing and can be orders of magnitude slower on BV+FP queries).
var quickMs = 4000

func startSolver(kind string, timeoutMs int) (*Solver, error) {
	var cmd *exec.Cmd
	switch kind {
	case "z3":
		cmd = exec.Command("/usr/bin/z3", "-in")
	case "z3-new":
		cmd = exec.Command("z3-new", "-in")
	case "cvc5":
		cmd = exec.Command("cvc5", "--incremental", "--produce-models", "--lang=smt2", fmt.Sprintf("--tlimit-per=%d", timeoutMs))
	case "cvc5-int":
		// bit-vectors solved as integers (mod 2^k semantics kept): decides linear
		// 64-bit arithmetic that bit-blasting does not finish
		cmd = exec.Command("cvc5", "--incremental", "--produce-models", "--lang=smt2", "--solve-bv-as-int=sum", fmt.Sprintf("--tlimit-per=%d", timeoutMs))
	default:
		return nil, fmt.Errorf("unknown solver %q", kind)
	}
	in, err := cmd.StdinPipe()
	if err != nil {
		return nil, err
	}
	outp, err := cmd.StdoutPipe()
	if err != nil {
		return nil, err
	}
	cmd.Stderr = nil
	if err := cmd.Start(); err != nil {
		return nil, err
	}
	s := &Solver{kind: kind, cmd: cmd, in: in, out: bufio.NewReaderSize(outp, 1<<16), timeoutMs: timeoutMs}
	s.reset()
	return s, nil
}

func (s *Solver) close() {
	if s.oneshot != nil {
		s.oneshot.close()
		s.oneshot = nil
	}
	if s.cmd != nil && s.cmd.Process != nil {
		s.in.Close()
		s.cmd.Process.Kill()
		s.cmd.Wait()
	}
}

func (s *Solver) send(txt string) {
	if s.log != nil {
		io.WriteString(s.log, txt)
	}
	if _, err := io.WriteString(s.in, txt); err != nil {
		s.dead = true
	}
}

func (s *Solver) reset() {
	s.p = newPrinter()
	s.hist.Reset()
	s.send(s.preamble(quickMs))
}

func (s *Solver) preamble(ms int) string {
	if strings.HasPrefix(s.kind, "cvc5") {
		return "(reset)\n(set-logic ALL)\n"
	}
	return fmt.Sprintf("(reset)\n(set-option :timeout %d)\n", ms)
}

func (s *Solver) persist(txt string) {
	s.hist.WriteString(txt)
	s.send(txt)
}

func (s *Solver) flushDefs() {
	if s.p.out.Len() > 0 {
		s.persist(s.p.out.String())
		s.p.out.Reset()
	}
}

// assert adds e permanently to the session (until reset).
func (s *Solver) assert(e *Expr) {
	if e.isConst() && e.b {
		return
	}
	r := s.p.ref(e)
	s.flushDefs()
	s.persist("(assert " + r + ")\n")
}

// readSexp reads one line or one balanced s-expression.
func (s *Solver) readSexp() (string, error) {
	var sb strings.Builder
	depth := 0
	started := false
	inBar := false
	for {
		c, err := s.out.ReadByte()
		if err != nil {
			s.dead = true
			return sb.String(), err
		}
		if !started {
			if c == ' ' || c == '\n' || c == '\t' || c == '\r' {
				continue
			}
			started = true
		}
		sb.WriteByte(c)
		if c == '|' {
			inBar = !inBar
		}
		if inBar {
			continue
		}
		switch c {
		case '(':
			depth++
		case ')':
			depth--
			if depth == 0 {
				return sb.String(), nil
			}
		case '\n':
			if depth == 0 {
				return strings.TrimSpace(sb.String()), nil
			}
		}
	}
}

// check decides satisfiability of (session assertions AND extra).
// It returns "sat", "unsat" or "unknown" (errors and timeouts are unknown).
// If vars is non-empty and the result is sat, their model values are returned.
// The query is first tried incrementally with a short timeout and, if that is
// inconclusive, re-run non-incrementally (fresh context) with the full one.
func (s *Solver) check(extra *Expr, isAssertion bool, vars []*Expr) (string, map[string]*Expr) {
	t0 := time.Now()
	defer func() { atomic.AddInt64(&gStats.nanos, int64(time.Since(t0))) }()
	if isAssertion {
		atomic.AddInt64(&gStats.assertQueries, 1)
	} else {
		atomic.AddInt64(&gStats.feasQueries, 1)
	}
	if s.dead {
		atomic.AddInt64(&gStats.errors, 1)
		atomic.AddInt64(&gStats.unknown, 1)
		return "unknown", nil
	}
	var r string
	if extra != nil {
		r = s.p.ref(extra)
	}
	// make sure vars are declared before push
	var names []string
	for _, v := range vars {
		names = append(names, s.p.ref(v))
	}
	s.flushDefs()
	var q strings.Builder
	if extra != nil {
		q.WriteString("(assert " + r + ")\n")
	}
	q.WriteString("(check-sat)\n")
	res, model := s.ask("(push 1)\n"+q.String(), "(pop 1)\n", names, vars)
	if res == "unknown" && !s.dead && s.timeoutMs > quickMs {
		atomic.AddInt64(&gStats.oneshot, 1)
		if s.oneshot == nil || s.oneshot.dead {
			if s.oneshot != nil {
				s.oneshot.close()
			}
			fk := s.kind
			if strings.HasPrefix(fk, "cvc5") {
				fk = "z3" // a different engine for what cvc5 could not decide quickly
			}
			o, err := startSolver(fk, s.timeoutMs)
			if err != nil {
				atomic.AddInt64(&gStats.unknown, 1)
				return "unknown", nil
			}
			o.isOneshot = true
			o.log = s.log
			s.oneshot = o
		}
		o := s.oneshot
		res, model = o.ask(o.preamble(s.timeoutMs)+s.hist.String()+q.String(), "", names, vars)
	}
	switch res {
	case "sat":
		atomic.AddInt64(&gStats.sat, 1)
	case "unsat":
		atomic.AddInt64(&gStats.unsat, 1)
	default:
		atomic.AddInt64(&gStats.unknown, 1)
	}
	if d := time.Since(t0); d > 2*time.Second && slowLog != nil {
		es := "<nil>"
		if extra != nil {
			es = extra.String()
			if len(es) > 400 {
				es = es[:400]
			}
		}
		fmt.Fprintf(slowLog, "slow query %.1fs -> %s (session %d bytes): %s\n", d.Seconds(), res, s.hist.Len(), es)
		if dir := os.Getenv("VERIF_SLOWDUMP"); dir != "" {
			n := atomic.AddInt64(&slowN, 1)
			if n < 20 {
				os.WriteFile(fmt.Sprintf("%s/slow-%d.smt2", dir, n), []byte(s.hist.String()+q.String()), 0o644)
			}
		}
	}
	return res, model
}

var slowLog io.Writer
var slowN int64

// ask sends one query and reads its answer (and model). Every exchange is
// terminated by an echoed marker so that an unexpected "(error ...)" line can
// never be mistaken for the answer of a later command; after any error the
// session is considered corrupted and the process is marked dead (the path
// is then re-run on a fresh solver).
func (s *Solver) ask(query, epilogue string, names []string, vars []*Expr) (string, map[string]*Expr) {
	s.seq++
	marker := fmt.Sprintf("SYNC-%d", s.seq)
	s.send(query + "(echo \"" + marker + "\")\n")
	outs, sawErr := s.readUntil(marker)
	res := "unknown"
	for _, o := range outs {
		if o == "sat" || o == "unsat" || o == "unknown" {
			res = o
		}
	}
	if sawErr != "" {
		res = "unknown"
	}
	var model map[string]*Expr
	if res == "sat" && len(vars) > 0 && !s.dead {
		s.seq++
		marker = fmt.Sprintf("SYNC-%d", s.seq)
		s.send("(get-value (" + strings.Join(names, " ") + "))\n(echo \"" + marker + "\")\n")
		outs, e2 := s.readUntil(marker)
		if e2 != "" {
			sawErr = e2
			res = "unknown"
		} else if len(outs) > 0 {
			model = parseModel(outs[0], vars)
		}
	}
	if epilogue != "" && !s.dead {
		s.seq++
		marker = fmt.Sprintf("SYNC-%d", s.seq)
		s.send(epilogue + "(echo \"" + marker + "\")\n")
		if _, e3 := s.readUntil(marker); e3 != "" {
			sawErr = e3
		}
	}
	if sawErr != "" {
		atomic.AddInt64(&gStats.errors, 1)
		if s.log != nil {
			fmt.Fprintf(s.log, "; SOLVER ERROR: %s\n", sawErr)
		}
		if slowLog != nil {
			fmt.Fprintf(slowLog, "solver error: %s\n", sawErr)
		}
		s.dead = true
		res = "unknown"
		model = nil
	}
	return res, model
}

// readUntil reads solver output up to the echoed marker.
func (s *Solver) readUntil(marker string) (outs []string, sawErr string) {
	for {
		o, err := s.readSexp()
		if err != nil {
			s.dead = true
			return outs, "solver process ended: " + err.Error()
		}
		if o == marker || o == "\""+marker+"\"" {
			return outs, sawErr
		}
		if strings.HasPrefix(o, "(error") {
			sawErr = o
			continue
		}
		outs = append(outs, o)
	}
}

// ---- model parsing

type tok struct {
	s    string
	list []*tok
}

func tokenize(s string) []string {
	var out []string
	i := 0
	for i < len(s) {
		c := s[i]
		switch {
		case c == ' ' || c == '\n' || c == '\t' || c == '\r':
			i++
		case c == '(' || c == ')':
			out = append(out, string(c))
			i++
		case c == '|':
			j := strings.IndexByte(s[i+1:], '|')
			out = append(out, s[i:i+j+2])
			i += j + 2
		default:
			j := i
			for j < len(s) && !strings.ContainsRune(" \n\t\r()", rune(s[j])) {
				j++
			}
			out = append(out, s[i:j])
			i = j
		}
	}
	return out
}

func parseTok(ts []string, pos *int) *tok {
	t := ts[*pos]
	*pos++
	if t == "(" {
		n := &tok{}
		for ts[*pos] != ")" {
			n.list = append(n.list, parseTok(ts, pos))
		}
		*pos++
		return n
	}
	return &tok{s: t}
}

func parseModel(txt string, vars []*Expr) map[string]*Expr {
	defer func() { recover() }()
	ts := tokenize(txt)
	pos := 0
	root := parseTok(ts, &pos)
	m := map[string]*Expr{}
	for i, pair := range root.list {
		if i >= len(vars) || len(pair.list) != 2 {
			continue
		}
		v := vars[i]
		if e := parseValue(pair.list[1], v.sort); e != nil {
			m[v.name] = e
		}
	}
	return m
}

func parseBits(s string) (uint64, int, bool) {
	if strings.HasPrefix(s, "#x") {
		v, err := strconv.ParseUint(s[2:], 16, 64)
		return v, 4 * (len(s) - 2), err == nil
	}
	if strings.HasPrefix(s, "#b") {
		v, err := strconv.ParseUint(s[2:], 2, 64)
		return v, len(s) - 2, err == nil
	}
	return 0, 0, false
}

func parseValue(t *tok, s Sort) *Expr {
	switch s.k {
	case sBool:
		return boolConst(t.s == "true")
	case sBV:
		if t.list != nil { // (_ bv123 64)
			if len(t.list) == 3 && strings.HasPrefix(t.list[1].s, "bv") {
				v, _ := strconv.ParseUint(t.list[1].s[2:], 10, 64)
				return bvConst(s.w, v)
			}
			return nil
		}
		v, _, ok := parseBits(t.s)
		if !ok {
			return nil
		}
		return bvConst(s.w, v)
	default:
		eb, sb := 11, 52
		if s.k == sFP32 {
			eb, sb = 8, 23
		}
		if len(t.list) == 4 && t.list[0].s == "fp" {
			sg, _, _ := parseBits(t.list[1].s)
			ex, _, _ := parseBits(t.list[2].s)
			mn, _, _ := parseBits(t.list[3].s)
			if s.k == sFP32 {
				return fpConst(s.k, float64(math.Float32frombits(uint32(sg<<31|ex<<uint(sb)|mn))))
			}
			_ = eb
			return fpConst(s.k, math.Float64frombits(sg<<63|ex<<uint(sb)|mn))
		}
		if len(t.list) >= 2 && t.list[0].s == "_" {
			switch t.list[1].s {
			case "+zero":
				return fpConst(s.k, 0)
			case "-zero":
				return fpConst(s.k, math.Copysign(0, -1))
			case "+oo":
				return fpConst(s.k, math.Inf(1))
			case "-oo":
				return fpConst(s.k, math.Inf(-1))
			case "NaN":
				return fpConst(s.k, math.NaN())
			}
		}
	}
	return nil
}
