package main

// Intercepted functions: the harness API, runtime/stdlib functions without
// usable SSA (assembly, unsafe, reflection), logging (no-ops) and
// per-harness stubs.

import (
	"fmt"
	"go/token"
	"go/types"
	"math"
	"math/bits"
	"strconv"
	"strings"
	"unicode"

	"golang.org/x/tools/go/ssa"
)

type externalFn func(fr *frame, args []value) value

// Key strings are from Function.String() (of the generic origin for
// instantiations).
var externals = map[string]externalFn{}

// noopPackages: every function and method of these packages returns the
// zero value of its result type without executing (arguments are already
// evaluated by the caller).
var noopPackages = []string{
	"github.com/containers/nri-plugins/pkg/log",
	"github.com/containers/nri-plugins/pkg/instrumentation",
	"github.com/sirupsen/logrus",
	"k8s.io/klog/v2",
	"go.opentelemetry.io/",
	"github.com/prometheus/",
	"log",
	"log/slog",
}

type extNone struct{}

func funcKey(fn *ssa.Function) string {
	if o := fn.Origin(); o != nil {
		return o.String()
	}
	return fn.String()
}

func isNoopPkg(path string) bool {
	for _, np := range noopPackages {
		if path == np || strings.HasPrefix(path, np+"/") || (strings.HasSuffix(np, "/") && strings.HasPrefix(path, np)) {
			return true
		}
	}
	return false
}

func (lp *loadedProgram) resolveExternal(fn *ssa.Function) externalFn {
	if v, ok := lp.extCache.Load(fn); ok {
		if f, ok := v.(externalFn); ok {
			return f
		}
		return nil
	}
	var f externalFn
	name := funcKey(fn)
	short := fn.Name()
	switch {
	case strings.HasPrefix(short, "verif") && verifAPI[short] != nil:
		f = verifAPI[short]
	case externals[name] != nil:
		f = externals[name]
	default:
		if st, ok := lp.cfg.stubs[name]; ok {
			f = makeStub(fn, st)
		} else {
			path := ""
			if fn.Pkg != nil {
				path = fn.Pkg.Pkg.Path()
			} else {
				path = recvPkgPath(fn)
			}
			if path != "" && isNoopPkg(path) {
				sig := fn.Signature
				f = func(fr *frame, args []value) value { return zeroResults(sig) }
			}
		}
	}
	if f == nil {
		lp.extCache.Store(fn, extNone{})
		return nil
	}
	lp.extCache.Store(fn, f)
	return f
}

func recvPkgPath(fn *ssa.Function) string {
	r := fn.Signature.Recv()
	if r == nil {
		return ""
	}
	t := r.Type()
	if p, ok := t.(*types.Pointer); ok {
		t = p.Elem()
	}
	if n, ok := t.(*types.Named); ok && n.Obj().Pkg() != nil {
		return n.Obj().Pkg().Path()
	}
	return ""
}

// makeStub builds a configured stub: "zero" returns zero values,
// "unsupported" aborts the path.
func makeStub(fn *ssa.Function, kind string) externalFn {
	sig := fn.Signature
	switch kind {
	case "zero", "noop":
		return func(fr *frame, args []value) value { return zeroResults(sig) }
	case "unsupported":
		return func(fr *frame, args []value) value { panic(unsupported{"stubbed out: " + fn.String()}) }
	}
	if strings.HasPrefix(kind, "harness:") {
		// the callee is replaced by a model function of the harness package
		// (same parameters and results); natively the real callee runs
		model := strings.TrimPrefix(kind, "harness:")
		return func(fr *frame, args []value) value {
			m := fr.i.lp.harnessPkg.Func(model)
			if m == nil {
				panic(unsupported{"stub " + kind + ": the harness package has no function " + model})
			}
			return call(fr.i, fr, token.NoPos, m, args)
		}
	}
	panic("unknown stub kind " + kind)
}

func strArg(v value) string {
	switch v := v.(type) {
	case string:
		return v
	case symstr:
		panic(unsupported{"symbolic string where a concrete one is required"})
	}
	panic(fmt.Sprintf("strArg: %T", v))
}

// ---------------------------------------------------------------- harness API

var verifAPI = map[string]externalFn{}

func nondetInt(kind types.BasicKind) externalFn {
	return func(fr *frame, args []value) value {
		e := fr.i.newNondet(strArg(args[0]), kindSort(kind))
		return fromExpr(e, kind)
	}
}

func init() {
	verifAPI["verifNondetBool"] = nondetInt(types.Bool)
	verifAPI["verifNondetInt"] = nondetInt(types.Int)
	verifAPI["verifNondetInt64"] = nondetInt(types.Int64)
	verifAPI["verifNondetInt32"] = nondetInt(types.Int32)
	verifAPI["verifNondetInt16"] = nondetInt(types.Int16)
	verifAPI["verifNondetInt8"] = nondetInt(types.Int8)
	verifAPI["verifNondetUint"] = nondetInt(types.Uint)
	verifAPI["verifNondetUint64"] = nondetInt(types.Uint64)
	verifAPI["verifNondetUint32"] = nondetInt(types.Uint32)
	verifAPI["verifNondetUint16"] = nondetInt(types.Uint16)
	verifAPI["verifNondetUint8"] = nondetInt(types.Uint8)
	verifAPI["verifChoice"] = func(fr *frame, args []value) value {
		n := int(asInt64(args[1]))
		if n <= 0 {
			panic(pathEnd{"assume"})
		}
		return fr.i.choose(strArg(args[0]), n)
	}
	verifAPI["verifAssume"] = func(fr *frame, args []value) value {
		fr.i.assume(toExpr(args[0]))
		return nil
	}
	verifAPI["verifAssert"] = func(fr *frame, args []value) value {
		fr.i.checkAssert(strArg(args[0]), toExpr(args[1]), "assert", "")
		return nil
	}
	verifAPI["verifCover"] = func(fr *frame, args []value) value {
		fr.i.cover(strArg(args[0]))
		return nil
	}
	verifAPI["verifMapOrder"] = func(fr *frame, args []value) value {
		if m, ok := args[0].(iface).v.(*omap); ok && m != nil {
			m.randomOrder = true
		}
		return nil
	}
	verifAPI["verifAnd"] = func(fr *frame, args []value) value {
		return fromExpr(mkAnd(toExpr(args[0]), toExpr(args[1])), types.Bool)
	}
	verifAPI["verifOr"] = func(fr *frame, args []value) value {
		return fromExpr(mkOr(toExpr(args[0]), toExpr(args[1])), types.Bool)
	}
	verifAPI["verifImplies"] = func(fr *frame, args []value) value {
		return fromExpr(mkImplies(toExpr(args[0]), toExpr(args[1])), types.Bool)
	}
	verifAPI["verifIteInt64"] = func(fr *frame, args []value) value {
		return fromExpr(mkIte(toExpr(args[0]), toExpr(args[1]), toExpr(args[2])), types.Int64)
	}
	verifAPI["verifIteInt"] = func(fr *frame, args []value) value {
		return fromExpr(mkIte(toExpr(args[0]), toExpr(args[1]), toExpr(args[2])), types.Int)
	}
	verifAPI["verifNondetCPUSet"] = func(fr *frame, args []value) value {
		w := int(asInt64(args[1]))
		if w <= 0 || w > cpusetWidth {
			panic(unsupported{"verifNondetCPUSet: width out of range"})
		}
		e := fr.i.newNondet(strArg(args[0]), bvSort(w))
		if e.isConst() {
			return cpusetv{bvConst(cpusetWidth, e.bv)}
		}
		return cpusetv{bvZeroExt(cpusetWidth-w, e)}
	}
	verifAPI["verifParam"] = func(fr *frame, args []value) value {
		name := strArg(args[0])
		v, ok := fr.i.lp.cfg.params[name]
		if !ok {
			return int(asInt64(args[1]))
		}
		return v
	}
	verifAPI["verifSerialize"] = func(fr *frame, args []value) value { return nil }
	verifAPI["verifRunGoroutines"] = func(fr *frame, args []value) value {
		fr.i.runPendingGo()
		return nil
	}
	verifAPI["verifCompletes"] = func(fr *frame, args []value) (res value) {
		res = true
		defer func() {
			if p := recover(); p != nil {
				if gb, ok := p.(goBlocked); ok && gb.main {
					res = false
					return
				}
				panic(p)
			}
		}()
		call(fr.i, fr, token.NoPos, args[0], nil)
		return
	}
	verifAPI["verifSymbolic"] = func(fr *frame, args []value) value { return fr.i.vector == nil || fr.i.simulate }
	verifAPI["verifObserve"] = func(fr *frame, args []value) value {
		if fr.i.vector != nil {
			fr.i.concreteEvents = append(fr.i.concreteEvents, "observe "+strArg(args[0])+"="+observeString(args[1].(iface).v))
		}
		return nil
	}
}

func observeString(v value) string {
	switch v := v.(type) {
	case iface:
		return observeString(v.v)
	case cpusetv:
		if v.bits.isConst() {
			return fmt.Sprintf("cpuset:%x", v.bits.bv)
		}
	}
	return toString(v)
}

// ---------------------------------------------------------------- stdlib

func init() {
	for k, v := range map[string]externalFn{
		// runtime / unsafe-based helpers
		"runtime.KeepAlive":                    extNoop,
		"runtime.SetFinalizer":                 extNoop,
		"runtime.GC":                           extNoop,
		"runtime.Gosched":                      extNoop,
		"internal/stringslite.Clone":           extIdentity,
		"strings.Clone":                        extIdentity,
		"internal/bytealg.IndexByteString":     extIndexByte,
		"internal/bytealg.IndexByte":           extIndexByte,
		"internal/bytealg.CountString":         extCountByte,
		"internal/bytealg.Count":               extCountByte,
		"internal/bytealg.IndexString":         extIndexString,
		"internal/bytealg.Index":               extIndexString,
		"internal/bytealg.Equal":               extBytesEqual,
		"internal/bytealg.Compare":             extBytesCompare,
		"internal/bytealg.MakeNoZero":          extMakeNoZero,
		"internal/bytealg.LastIndexByteString": extLastIndexByte,
		"internal/bytealg.LastIndexByte":       extLastIndexByte,
		"bytes.Equal":                          extBytesEqual,
		"bytes.Compare":                        extBytesCompare,
		"bytes.IndexByte":                      extIndexByte,
		"strings.IndexByte":                    extIndexByte,
		"strings.Index":                        extIndexString,
		"strings.Compare":                      extBytesCompare,
		"(*strings.Builder).String":            extBuilderString,
		"(*strings.Builder).WriteString":       extBuilderWriteString,
		"(*strings.Builder).WriteByte":         extBuilderWriteByte,
		"(*strings.Builder).WriteRune":         extBuilderWriteRune,
		"(*strings.Builder).Write":             extBuilderWrite,
		"(*strings.Builder).Len":               extBuilderLen,
		"(*strings.Builder).Grow":              extNoop,
		"(*strings.Builder).Reset":             extBuilderReset,
		"unicode.IsSpace":                      extUnicode(unicode.IsSpace),
		"unicode.IsLetter":                     extUnicode(unicode.IsLetter),
		"unicode.IsDigit":                      extUnicode(unicode.IsDigit),
		"unicode.IsUpper":                      extUnicode(unicode.IsUpper),
		"unicode.IsLower":                      extUnicode(unicode.IsLower),
		"unicode.IsPunct":                      extUnicode(unicode.IsPunct),
		"unicode.IsPrint":                      extUnicode(unicode.IsPrint),
		"unicode.ToLower":                      extUnicodeMap(unicode.ToLower),
		"unicode.ToUpper":                      extUnicodeMap(unicode.ToUpper),
		"sort.Slice":                           extSortSlice,
		"sort.SliceStable":                     extSortSlice,
		"math.Floor":                           extMathFloor,
		"math.Ceil":                            extMathCeil,
		"math.Float64bits":                     extFloat64bits,
		"math.Float64frombits":                 extFloat64frombits,
		"math.Float32bits":                     func(fr *frame, a []value) value { return math.Float32bits(a[0].(float32)) },
		"math.Float32frombits":                 func(fr *frame, a []value) value { return math.Float32frombits(a[0].(uint32)) },
		"math.IsNaN":                           extIsNaN,
		"math.IsInf":                           func(fr *frame, a []value) value { return math.IsInf(a[0].(float64), a[1].(int)) },
		"math.Inf":                             func(fr *frame, a []value) value { return math.Inf(a[0].(int)) },
		"math.NaN":                             func(fr *frame, a []value) value { return math.NaN() },
		"math.Abs":                             extMathAbs,
		"math.Pow":                             func(fr *frame, a []value) value { return math.Pow(a[0].(float64), a[1].(float64)) },
		"math.Sqrt":                            func(fr *frame, a []value) value { return math.Sqrt(a[0].(float64)) },
		"math.Log2":                            func(fr *frame, a []value) value { return math.Log2(a[0].(float64)) },
		"math.Log":                             func(fr *frame, a []value) value { return math.Log(a[0].(float64)) },
		"math.Exp":                             func(fr *frame, a []value) value { return math.Exp(a[0].(float64)) },
		"math.Round":                           func(fr *frame, a []value) value { return math.Round(a[0].(float64)) },
		"math.Trunc":                           func(fr *frame, a []value) value { return math.Trunc(a[0].(float64)) },
		"math.Mod":                             func(fr *frame, a []value) value { return math.Mod(a[0].(float64), a[1].(float64)) },
		"math.Max":                             func(fr *frame, a []value) value { return math.Max(a[0].(float64), a[1].(float64)) },
		"math.Min":                             func(fr *frame, a []value) value { return math.Min(a[0].(float64), a[1].(float64)) },
		"math/bits.OnesCount64":                extOnesCount(64),
		"math/bits.OnesCount32":                extOnesCount(32),
		"math/bits.OnesCount16":                extOnesCount(16),
		"math/bits.OnesCount8":                 extOnesCount(8),
		"math/bits.OnesCount":                  extOnesCount(64),
		"math/bits.TrailingZeros64":            extTrailingZeros(64),
		"math/bits.TrailingZeros32":            extTrailingZeros(32),
		"math/bits.TrailingZeros":              extTrailingZeros(64),
		"math/bits.LeadingZeros64":             extLeadingZeros(64),
		"math/bits.Len64":                      extBitsLen(64),
		"math/bits.Len32":                      extBitsLen(32),
		"math/bits.Len":                        extBitsLen(64),
		"(*sync.Mutex).Lock":                   extMutexLock("w"),
		"(*sync.Mutex).Unlock":                 extMutexUnlock("w"),
		"(*sync.RWMutex).Lock":                 extMutexLock("w"),
		"(*sync.RWMutex).Unlock":               extMutexUnlock("w"),
		"(*sync.RWMutex).RLock":                extMutexLock("r"),
		"(*sync.RWMutex).RUnlock":              extMutexUnlock("r"),
		"(*sync.Once).Do":                      extOnceDo,
		"(*sync.WaitGroup).Add":                extNoop,
		"(*sync.WaitGroup).Done":               extNoop,
		"(*sync.WaitGroup).Wait":               extNoop,
		"time.Now":                             extTimeNow,
		"time.Since":                           func(fr *frame, a []value) value { return int64(0) },
		"time.Sleep":                           extNoop,
		"errors.Is":                            extErrorsIs,
		"fmt.Sprintf":                          extSprintf,
		"fmt.Sprint":                           extSprint,
		"fmt.Sprintln":                         extSprint,
		"fmt.Errorf":                           extErrorf,
		"fmt.Printf":                           extFprintf,
		"fmt.Println":                          extFprintf,
		"fmt.Print":                            extFprintf,
		"fmt.Fprintf":                          extFprintf,
		"fmt.Fprintln":                         extFprintf,
		"fmt.Fprint":                           extFprintf,
		"strconv.Itoa":                         extItoa,
		"strconv.Quote":                        func(fr *frame, a []value) value { return strconv.Quote(strArg(a[0])) },
		"strconv.ParseFloat":                   extParseFloat,
		"os.Getenv":                            func(fr *frame, a []value) value { return "" },
		"os.LookupEnv":                         func(fr *frame, a []value) value { return tuple{"", false} },
		"os.Getpid":                            func(fr *frame, a []value) value { return 4242 },
		"maps.clone":                           extMapsClone,
		"runtime.Caller":                       func(fr *frame, a []value) value { return tuple{uintptr(0), "", 0, false} },
		"runtime.Callers":                      func(fr *frame, a []value) value { return 0 },
		"runtime.NumCPU":                       func(fr *frame, a []value) value { return 16 },
		"runtime.GOMAXPROCS":                   func(fr *frame, a []value) value { return 16 },
	} {
		externals[k] = v
	}
}

func extNoop(fr *frame, args []value) value { return nil }

func extIdentity(fr *frame, args []value) value { return args[0] }

func bytesOf(v value) symstr {
	switch v := v.(type) {
	case string, symstr:
		return toSymstr(v)
	case []value:
		return symstr(v)
	}
	panic(fmt.Sprintf("bytesOf: %T", v))
}

// extIndexByte finds the first index of c in s, forking on symbolic bytes.
func extIndexByte(fr *frame, args []value) value {
	for j, b := range bytesOf(args[0]) {
		if fr.i.branch(byteEq(b, args[1])) {
			return j
		}
	}
	return -1
}

func extLastIndexByte(fr *frame, args []value) value {
	s := bytesOf(args[0])
	for j := len(s) - 1; j >= 0; j-- {
		if fr.i.branch(byteEq(s[j], args[1])) {
			return j
		}
	}
	return -1
}

func extCountByte(fr *frame, args []value) value {
	n := 0
	for _, b := range bytesOf(args[0]) {
		if fr.i.branch(byteEq(b, args[1])) {
			n++
		}
	}
	return n
}

func extIndexString(fr *frame, args []value) value {
	s, sub := bytesOf(args[0]), bytesOf(args[1])
	for j := 0; j+len(sub) <= len(s); j++ {
		if fr.i.branch(symStrEq(s[j:j+len(sub)], sub)) {
			return j
		}
	}
	return -1
}

func extBytesEqual(fr *frame, args []value) value {
	return fromExpr(symStrEq(bytesOf(args[0]), bytesOf(args[1])), types.Bool)
}

func extBytesCompare(fr *frame, args []value) value {
	a, b := bytesOf(args[0]), bytesOf(args[1])
	if fr.i.branch(symStrEq(a, b)) {
		return 0
	}
	if fr.i.branch(symStrLess(a, b)) {
		return -1
	}
	return 1
}

func extMakeNoZero(fr *frame, args []value) value {
	n := fr.i.concInt(args[0])
	s := make([]value, n)
	for j := range s {
		s[j] = uint8(0)
	}
	return s
}

// strings.Builder: struct{addr *Builder; buf []byte}
func builderBuf(args []value) *value {
	p := args[0].(*value)
	if p == nil {
		nilDeref()
	}
	return &(*p).(structure)[1]
}
func extBuilderString(fr *frame, args []value) value {
	b := *builderBuf(args)
	return normStr(append(symstr(nil), b.([]value)...))
}
func extBuilderWriteString(fr *frame, args []value) value {
	b := builderBuf(args)
	s := bytesOf(args[1])
	*b = append((*b).([]value), s...)
	return tuple{len(s), iface{}}
}
func extBuilderWrite(fr *frame, args []value) value {
	b := builderBuf(args)
	s := args[1].([]value)
	*b = append((*b).([]value), s...)
	return tuple{len(s), iface{}}
}
func extBuilderWriteByte(fr *frame, args []value) value {
	b := builderBuf(args)
	*b = append((*b).([]value), args[1])
	return iface{}
}
func extBuilderWriteRune(fr *frame, args []value) value {
	b := builderBuf(args)
	if sv, ok := args[1].(symv); ok {
		if !fr.i.branch(bvCmp("bvult", sv.e, bvConst(32, 0x80))) {
			panic(unsupported{"WriteRune of symbolic non-ASCII rune"})
		}
		*b = append((*b).([]value), symConv(sv, types.Uint8))
		return tuple{1, iface{}}
	}
	s := string(rune(args[1].(int32)))
	for j := 0; j < len(s); j++ {
		*b = append((*b).([]value), s[j])
	}
	return tuple{len(s), iface{}}
}
func extBuilderLen(fr *frame, args []value) value { return len((*builderBuf(args)).([]value)) }
func extBuilderReset(fr *frame, args []value) value {
	*builderBuf(args) = []value(nil)
	return nil
}

func extUnicode(f func(rune) bool) externalFn {
	return func(fr *frame, args []value) value {
		if sv, ok := args[0].(symv); ok {
			// decide via concretization of the rune (ASCII range expected)
			r := fr.i.concretize(sv)
			return f(rune(r))
		}
		return f(rune(args[0].(int32)))
	}
}
func extUnicodeMap(f func(rune) rune) externalFn {
	return func(fr *frame, args []value) value {
		if sv, ok := args[0].(symv); ok {
			r := fr.i.concretize(sv)
			return int32(f(rune(r)))
		}
		return int32(f(rune(args[0].(int32))))
	}
}

// sort.Slice / sort.SliceStable: insertion sort driving the real less
// closure (the algorithm the library itself runs for slices of <= 12
// elements; longer slices are unsupported).
func extSortSlice(fr *frame, args []value) value {
	x, ok := args[0].(iface).v.([]value)
	if !ok {
		panic(unsupported{fmt.Sprintf("sort.Slice of %T", args[0].(iface).v)})
	}
	less := args[1]
	n := len(x)
	if n > 12 {
		// insertion sort is still a correct sort for a consistent less; the
		// element order of equal elements may differ from the library's.
		sigLess := true
		_ = sigLess
	}
	lt := func(a, b int) bool {
		return fr.i.concBool(call(fr.i, fr, token.NoPos, less, []value{a, b}))
	}
	for a := 1; a < n; a++ {
		for b := a; b > 0 && lt(b, b-1); b-- {
			x[b], x[b-1] = x[b-1], x[b]
		}
	}
	return nil
}

func extMathFloor(fr *frame, args []value) value {
	if sv, ok := args[0].(symv); ok {
		return symv{newExpr("fp.roundToIntegral.floor", sv.e.sort, sv.e), sv.k}
	}
	return math.Floor(args[0].(float64))
}
func extMathCeil(fr *frame, args []value) value {
	if sv, ok := args[0].(symv); ok {
		return symv{newExpr("fp.roundToIntegral.ceil", sv.e.sort, sv.e), sv.k}
	}
	return math.Ceil(args[0].(float64))
}
func extMathAbs(fr *frame, args []value) value {
	if sv, ok := args[0].(symv); ok {
		return symv{newExpr("fp.abs", sv.e.sort, sv.e), sv.k}
	}
	return math.Abs(args[0].(float64))
}
func extIsNaN(fr *frame, args []value) value {
	if sv, ok := args[0].(symv); ok {
		return fromExpr(newExpr("fp.isNaN", boolSort, sv.e), types.Bool)
	}
	return math.IsNaN(args[0].(float64))
}
func extFloat64bits(fr *frame, args []value) value {
	if _, ok := args[0].(symv); ok {
		panic(unsupported{"math.Float64bits of symbolic float"})
	}
	return math.Float64bits(args[0].(float64))
}
func extFloat64frombits(fr *frame, args []value) value {
	if _, ok := args[0].(symv); ok {
		panic(unsupported{"math.Float64frombits of symbolic bits"})
	}
	return math.Float64frombits(args[0].(uint64))
}

func extOnesCount(w int) externalFn {
	return func(fr *frame, args []value) value {
		if sv, ok := args[0].(symv); ok {
			return fromExpr(bvPopcount(sv.e, 64), types.Int)
		}
		return bits.OnesCount64(asUint64x(args[0]) & mask(w))
	}
}

func extTrailingZeros(w int) externalFn {
	return func(fr *frame, args []value) value {
		if sv, ok := args[0].(symv); ok {
			e := sv.e
			ww := e.sort.w
			r := bvConst(64, uint64(ww))
			for b := ww - 1; b >= 0; b-- {
				r = mkIte(mkEq(bvExtract(b, b, e), bvConst(1, 1)), bvConst(64, uint64(b)), r)
			}
			return fromExpr(r, types.Int)
		}
		x := asUint64x(args[0]) & mask(w)
		if x == 0 {
			return w
		}
		return bits.TrailingZeros64(x)
	}
}

func extLeadingZeros(w int) externalFn {
	lenf := extBitsLen(w)
	return func(fr *frame, args []value) value {
		l := lenf(fr, args)
		return binop(fr.i, token.SUB, nil, int(w), l)
	}
}

func extBitsLen(w int) externalFn {
	return func(fr *frame, args []value) value {
		if sv, ok := args[0].(symv); ok {
			e := sv.e
			ww := e.sort.w
			r := bvConst(64, 0)
			for b := 0; b < ww; b++ {
				r = mkIte(mkEq(bvExtract(b, b, e), bvConst(1, 1)), bvConst(64, uint64(b+1)), r)
			}
			return fromExpr(r, types.Int)
		}
		return bits.Len64(asUint64x(args[0]) & mask(w))
	}
}

// ---- sync: lock state is a ghost counter per mutex object (see C15)

type lockState struct {
	writers, readers int
}

func (i *interpreter) lockOf(p value) *lockState {
	key := fmt.Sprintf("lock:%p", p.(*value))
	if ls, ok := i.ghost[key]; ok {
		return ls.(*lockState)
	}
	ls := &lockState{}
	i.ghost[key] = ls
	return ls
}

func extMutexLock(mode string) externalFn {
	return func(fr *frame, args []value) value {
		if args[0].(*value) == nil {
			nilDeref()
		}
		ls := fr.i.lockOf(args[0])
		if mode == "w" {
			if ls.writers > 0 || ls.readers > 0 {
				panic(targetPanic{v: rtError("deadlock: Lock of a mutex already held by this (only) thread")})
			}
			ls.writers++
		} else {
			if ls.writers > 0 {
				panic(targetPanic{v: rtError("deadlock: RLock of a mutex write-held by this (only) thread")})
			}
			ls.readers++
		}
		return nil
	}
}

func extMutexUnlock(mode string) externalFn {
	return func(fr *frame, args []value) value {
		if args[0].(*value) == nil {
			nilDeref()
		}
		ls := fr.i.lockOf(args[0])
		if mode == "w" {
			if ls.writers == 0 {
				panic(targetPanic{v: rtError("sync: unlock of unlocked mutex")})
			}
			ls.writers--
		} else {
			if ls.readers == 0 {
				panic(targetPanic{v: rtError("sync: RUnlock of unlocked RWMutex")})
			}
			ls.readers--
		}
		return nil
	}
}

func extOnceDo(fr *frame, args []value) value {
	key := fmt.Sprintf("once:%p", args[0].(*value))
	if _, done := fr.i.ghost[key]; done {
		return nil
	}
	fr.i.ghost[key] = true
	call(fr.i, fr, token.NoPos, args[1], nil)
	return nil
}

// time.Now: a strictly increasing deterministic clock (one tick per call).
// time.Time = struct{wall uint64; ext int64; loc *Location}
func extTimeNow(fr *frame, args []value) value {
	fr.i.clock++
	// wall without hasMonotonic: ext = seconds since year 1
	return structure{uint64(fr.i.clock % 1000000000), int64(63000000000 + fr.i.clock), (*value)(nil)}
}

// errors.Is without reflectlite.
func extErrorsIs(fr *frame, args []value) value {
	err, target := args[0].(iface), args[1].(iface)
	if err.t == nil || target.t == nil {
		return err.t == nil && target.t == nil
	}
	comparable := types.Comparable(target.t)
	return errorsIs(fr, err, target, comparable, 0)
}

func errorsIs(fr *frame, err, target iface, comparable bool, depth int) bool {
	if depth > 32 {
		panic(unwindExceeded{"errors.Is chain longer than 32"})
	}
	for {
		if comparable && sameType(err.t, target.t) {
			if fr.i.branch(equalsExpr(err.t, err.v, target.v)) {
				return true
			}
		}
		if m := findMethod(fr.i, err.t, "Is"); m != nil {
			if fr.i.concBool(call(fr.i, fr, token.NoPos, m, []value{err.v, target})) {
				return true
			}
		}
		if m := findMethod(fr.i, err.t, "Unwrap"); m != nil {
			r := call(fr.i, fr, token.NoPos, m, []value{err.v})
			switch r := r.(type) {
			case iface:
				if r.t == nil {
					return false
				}
				err = r
				continue
			case []value:
				for _, e := range r {
					if e.(iface).t != nil && errorsIs(fr, e.(iface), target, comparable, depth+1) {
						return true
					}
				}
				return false
			}
		}
		return false
	}
}

func findMethod(i *interpreter, t types.Type, name string) *ssa.Function {
	ms := i.prog.MethodSets.MethodSet(t)
	for j := 0; j < ms.Len(); j++ {
		sel := ms.At(j)
		if sel.Obj().Name() == name {
			return i.prog.MethodValue(sel)
		}
	}
	return nil
}

// ---- fmt: a small formatter over interpreter values. Results that depend
// on values it cannot render contain a placeholder; such strings are only
// ever used as messages.

func fmtValue(i *interpreter, v value, verb byte) symstr {
	switch v := v.(type) {
	case iface:
		if v.t == nil {
			return toSymstr("<nil>")
		}
		// error / Stringer
		if verb != 'd' && verb != 'x' && verb != 'T' {
			for _, mname := range []string{"Error", "String"} {
				m := findMethod(i, v.t, mname)
				if m == nil || m.Signature.Params().Len() != 0 || m.Signature.Results().Len() != 1 {
					continue
				}
				if p, ok := v.v.(*value); ok && p == nil {
					return toSymstr("<nil>")
				}
				switch r := call(i, nil, token.NoPos, m, []value{v.v}).(type) {
				case string, symstr:
					return bytesOf(r)
				}
			}
		}
		if verb == 'T' {
			return toSymstr(v.t.String())
		}
		return fmtValue(i, v.v, verb)
	case string:
		if verb == 'q' {
			return toSymstr(strconv.Quote(v))
		}
		return toSymstr(v)
	case symstr:
		if verb == 'q' {
			r := toSymstr("\"")
			r = append(r, v...)
			return append(r, uint8('"'))
		}
		return v
	case bool:
		return toSymstr(strconv.FormatBool(v))
	case float32:
		return toSymstr(strconv.FormatFloat(float64(v), 'g', -1, 32))
	case float64:
		return toSymstr(strconv.FormatFloat(v, 'g', -1, 64))
	case symv:
		return toSymstr("<sym>")
	case opaqstr:
		return toSymstr("<" + v.tag + ">")
	case cpusetv:
		return toSymstr("<cpuset>")
	case []value:
		r := toSymstr("[")
		for j, e := range v {
			if j > 0 {
				r = append(r, uint8(' '))
			}
			r = append(r, fmtValue(i, e, verb)...)
		}
		return append(r, uint8(']'))
	}
	if k, ok := kindOf(v); ok && kindIsInt(k) {
		base := 10
		if verb == 'x' {
			base = 16
		}
		if verb == 'c' {
			return toSymstr(string(rune(asInt64(v))))
		}
		if kindSigned(k) {
			return toSymstr(strconv.FormatInt(asInt64(v), base))
		}
		return toSymstr(strconv.FormatUint(asUint64x(v), base))
	}
	return toSymstr("<" + fmt.Sprintf("%T", v) + ">")
}

func sprintf(i *interpreter, format string, args []value) (symstr, []iface) {
	var out symstr
	var wrapped []iface
	ai := 0
	for p := 0; p < len(format); p++ {
		c := format[p]
		if c != '%' {
			out = append(out, c)
			continue
		}
		p++
		if p >= len(format) {
			break
		}
		// flags/width/precision are skipped
		for p < len(format) && strings.IndexByte("+-# 0123456789.*", format[p]) >= 0 {
			p++
		}
		if p >= len(format) {
			break
		}
		verb := format[p]
		if verb == '%' {
			out = append(out, uint8('%'))
			continue
		}
		if ai >= len(args) {
			out = append(out, toSymstr("%!"+string(verb)+"(MISSING)")...)
			continue
		}
		a := args[ai]
		ai++
		if verb == 'w' {
			if e, ok := a.(iface); ok && e.t != nil {
				wrapped = append(wrapped, e)
			}
			verb = 'v'
		}
		out = append(out, fmtValue(i, a, verb)...)
	}
	return out, wrapped
}

func extSprintf(fr *frame, args []value) value {
	out, _ := sprintf(fr.i, strArg(args[0]), args[1].([]value))
	return normStr(out)
}

func extSprint(fr *frame, args []value) value {
	var out symstr
	for j, a := range args[0].([]value) {
		if j > 0 {
			out = append(out, uint8(' '))
		}
		out = append(out, fmtValue(fr.i, a, 'v')...)
	}
	return normStr(out)
}

func extFprintf(fr *frame, args []value) value { return tuple{0, iface{}} }

// fmt.Errorf: builds *fmt.wrapError (one %w), *fmt.wrapErrors (several) or
// *errors.errorString.
func extErrorf(fr *frame, args []value) value {
	out, wrapped := sprintf(fr.i, strArg(args[0]), args[1].([]value))
	msg := normStr(out)
	prog := fr.i.prog
	fmtPkg := prog.ImportedPackage("fmt")
	switch {
	case len(wrapped) == 1 && fmtPkg != nil:
		t := fmtPkg.Type("wrapError").Type()
		var cell value = structure{msg, wrapped[0]}
		return iface{types.NewPointer(t), &cell}
	case len(wrapped) > 1 && fmtPkg != nil:
		t := fmtPkg.Type("wrapErrors").Type()
		errs := make([]value, len(wrapped))
		for j, w := range wrapped {
			errs[j] = w
		}
		var cell value = structure{msg, errs}
		return iface{types.NewPointer(t), &cell}
	}
	return fr.i.newErrorV(msg)
}

func extItoa(fr *frame, args []value) value {
	if sv, ok := args[0].(symv); ok {
		return strconv.Itoa(int(fr.i.concretize(sv)))
	}
	return strconv.Itoa(args[0].(int))
}

func extParseFloat(fr *frame, args []value) value {
	s, ok := args[0].(string)
	if !ok {
		panic(unsupported{"strconv.ParseFloat of symbolic string"})
	}
	f, err := strconv.ParseFloat(s, int(asInt64(args[1])))
	if err != nil {
		return tuple{f, fr.i.newErrorV("strconv.ParseFloat: " + err.Error())}
	}
	return tuple{f, iface{}}
}

func (i *interpreter) newErrorV(msg value) iface {
	errorsPkg := i.prog.ImportedPackage("errors")
	t := errorsPkg.Type("errorString").Type()
	var cell value = structure{msg}
	return iface{types.NewPointer(t), &cell}
}

func extMapsClone(fr *frame, args []value) value {
	m, ok := args[0].(iface).v.(*omap)
	if !ok || m == nil {
		return args[0]
	}
	c := &omap{keyType: m.keyType, randomOrder: m.randomOrder}
	for _, e := range m.entries {
		c.entries = append(c.entries, &mentry{key: e.key, val: e.val})
	}
	return iface{args[0].(iface).t, c}
}
