package main

// C19 (affinity weights): sigs.k8s.io/yaml decodes through reflection, which
// the engine cannot execute. A harness package may define a decoder model in
// ordinary Go with the signature of the real function,
//
//	func verifYAMLUnmarshalStrict(data []byte, obj interface{}, opts ...yaml.JSONOpt) error
//
// to which the symbolic run redirects yaml.UnmarshalStrict; the native replay
// runs the real decoder on the document the harness rendered, so a model that
// disagrees with the decoder shows up as ENGINE-ERROR. A harness package
// without the model gets the configured stub if there is one, else the path
// ends as UNSUPPORTED, as before.

import "go/token"

func c19Dispatch(key, model string) externalFn {
	return func(fr *frame, args []value) value {
		fn := fr.i.lp.harnessPkg.Func(model)
		if fn == nil {
			if st, ok := fr.i.lp.cfg.stubs[key]; ok && fr.fn != nil {
				return makeStub(fr.fn, st)(fr, args)
			}
			panic(unsupported{"no code for function: " + key + " (reflection-based decoder; the harness package defines no model " + model + ")"})
		}
		return call(fr.i, fr, token.NoPos, fn, args)
	}
}

func init() {
	externals["sigs.k8s.io/yaml.UnmarshalStrict"] = c19Dispatch("sigs.k8s.io/yaml.UnmarshalStrict", "verifYAMLUnmarshalStrict")
}
