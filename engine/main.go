package main

// gosymex: symbolic execution of go/ssa for the nri-plugins properties.
//
//	gosymex check <ID> [--tier quick|thorough] [--only unit[,unit]] [-v]
//	gosymex replay <ID> <replay.json>
//	gosymex list

import (
	"encoding/json"
	"flag"
	"fmt"
	"go/types"
	"os"
	"path/filepath"
	"runtime"
	"sort"
	"strconv"
	"strings"
	"sync"
	"time"

	"golang.org/x/tools/go/packages"
	"golang.org/x/tools/go/ssa"
	"golang.org/x/tools/go/ssa/ssautil"
)

const repoModule = "github.com/containers/nri-plugins"

var (
	verifRoot = envOr("VERIF_ROOT", "/verif")
	repoRoot  = envOr("VERIF_REPO", "/repo")
)

func envOr(k, d string) string {
	if v := os.Getenv(k); v != "" {
		return v
	}
	return d
}

// ---- configuration (harness/checks.json)

type tierCfg struct {
	Params     map[string]int `json:"params"`
	Unwind     int            `json:"unwind"`
	TimeoutMs  int            `json:"timeoutMs"`
	MaxSeconds int            `json:"maxSeconds"`
	MaxSteps   int64          `json:"maxSteps"`
	Entries    []string       `json:"entries"` // overrides unit entries if set
	Skip       bool           `json:"skip"`
}

type unitCfg struct {
	Name     string            `json:"name"`
	Pkg      string            `json:"pkg"`   // import path of the package under test
	Dir      string            `json:"dir"`   // harness sources under /verif/harness/<dir>
	Entries  []string          `json:"entries"`
	Quick    tierCfg           `json:"quick"`
	Thorough tierCfg           `json:"thorough"`
	Stubs    map[string]string `json:"stubs"`
	InitPkgs []string          `json:"initPkgs"`
	NoInit   []string          `json:"noInit"`
	InlineGo bool              `json:"inlineGo"`
	DeferGo  bool              `json:"deferGo"` // go statements are queued; see chan.go
	// Rewrites replace a file of /repo in the overlay by a textually edited
	// copy of its CURRENT content (From must occur exactly once): instrumentation
	// that needs no change in /repo and is regenerated on every run.
	Rewrites []struct {
		File string `json:"file"`
		From string `json:"from"`
		To   string `json:"to"`
	} `json:"rewrites"`
	Bounds   string            `json:"bounds"`
	Assumes  []string          `json:"assumptions"`
	NoNativeCovers bool        `json:"noNativeCovers"`
	ParallelEntries int        `json:"parallelEntries"`
	Solver   string            `json:"solver"`
	ExtraOverlays []extraOverlay `json:"extraOverlays"` // harness files injected into other packages (no shim)
	CpusetShim bool            `json:"cpusetShim"`   // also inject the cpuset part of the shim (verifNondetCPUSet)
	NativeRetries int          `json:"nativeRetries"` // findings that depend on Go's random map order: re-run natively up to N times
}

type extraOverlay struct {
	Pkg string `json:"pkg"`
	Dir string `json:"dir"`
}

type propCfg struct {
	Units []unitCfg `json:"units"`
	Level string    `json:"level"`
}

type checksFile struct {
	Properties   map[string]propCfg `json:"properties"`
	DefaultStubs map[string]string  `json:"defaultStubs"`
}

type runConfig struct {
	solver     string
	timeoutMs  int
	unwind     int
	maxSteps   int64
	verbose    bool
	trace      bool
	smtLog     string
	inlineGo   bool
	deferGo    bool
	stubs      map[string]string
	params     map[string]int
	repoModule string
}

type knownFinding struct {
	Property string `json:"property"`
	Key      string `json:"key"` // unit/harness/label
	What     string `json:"what"`
	Status   string `json:"status"` // "known" or "fixed"
	Commit   string `json:"commit,omitempty"`
}

func loadChecks() (*checksFile, error) {
	data, err := os.ReadFile(filepath.Join(verifRoot, "harness", "checks.json"))
	if err != nil {
		return nil, err
	}
	var cf checksFile
	if err := json.Unmarshal(data, &cf); err != nil {
		return nil, fmt.Errorf("checks.json: %v", err)
	}
	// fragments: harness/checks.d/*.json (same format; units of a property are appended)
	frags, _ := filepath.Glob(filepath.Join(verifRoot, "harness", "checks.d", "*.json"))
	sort.Strings(frags)
	// fragments listed in checks.d/SKIP (work in progress) are ignored
	skip := map[string]bool{}
	if data, err := os.ReadFile(filepath.Join(verifRoot, "harness", "checks.d", "SKIP")); err == nil && os.Getenv("VERIF_INCLUDE_WIP") == "" {
		for _, l := range strings.Fields(string(data)) {
			skip[l] = true
		}
	}
	for _, f := range frags {
		if skip[filepath.Base(f)] {
			continue
		}
		data, err := os.ReadFile(f)
		if err != nil {
			return nil, err
		}
		var fc checksFile
		if err := json.Unmarshal(data, &fc); err != nil {
			return nil, fmt.Errorf("%s: %v", f, err)
		}
		if cf.Properties == nil {
			cf.Properties = map[string]propCfg{}
		}
		for id, pc := range fc.Properties {
			cur := cf.Properties[id]
			cur.Units = append(cur.Units, pc.Units...)
			cf.Properties[id] = cur
		}
		for k, v := range fc.DefaultStubs {
			if cf.DefaultStubs == nil {
				cf.DefaultStubs = map[string]string{}
			}
			cf.DefaultStubs[k] = v
		}
	}
	return &cf, nil
}

func loadKnown() []knownFinding {
	data, err := os.ReadFile(filepath.Join(verifRoot, "known_findings.json"))
	if err != nil {
		return nil
	}
	var kf struct {
		Findings []knownFinding `json:"findings"`
	}
	json.Unmarshal(data, &kf)
	return kf.Findings
}

// ---- loading

func overlayFor(u *unitCfg, pkgName string, entries []string) (map[string][]byte, string, error) {
	pkgDir := filepath.Join(repoRoot, strings.TrimPrefix(strings.TrimPrefix(u.Pkg, repoModule), "/"))
	ov := map[string][]byte{}
	shim, err := os.ReadFile(filepath.Join(verifRoot, "harness", "shim.go.tmpl"))
	if err != nil {
		return nil, "", err
	}
	ov[filepath.Join(pkgDir, "zz_verif_shim.go")] = []byte(strings.Replace(string(shim), "package PACKAGE", "package "+pkgName, 1))
	if u.CpusetShim {
		cs, err := os.ReadFile(filepath.Join(verifRoot, "harness", "shim_cpuset.go.tmpl"))
		if err != nil {
			return nil, "", err
		}
		ov[filepath.Join(pkgDir, "zz_verif_shim_cpuset.go")] = []byte(strings.Replace(string(cs), "package PACKAGE", "package "+pkgName, 1))
	}
	for _, rw := range u.Rewrites {
		path := filepath.Join(repoRoot, rw.File)
		data, err := os.ReadFile(path)
		if err != nil {
			return nil, "", err
		}
		if n := strings.Count(string(data), rw.From); n != 1 {
			return nil, "", fmt.Errorf("rewrite of %s: %q occurs %d times (expected exactly once)", rw.File, rw.From, n)
		}
		ov[path] = []byte(strings.Replace(string(data), rw.From, rw.To, 1))
	}
	inject := func(dir, into string) error {
		files, err := filepath.Glob(filepath.Join(verifRoot, "harness", dir, "*.go"))
		if err != nil {
			return err
		}
		for _, f := range files {
			data, err := os.ReadFile(f)
			if err != nil {
				return err
			}
			base := filepath.Base(f)
			if strings.HasSuffix(base, "_test.go") {
				continue
			}
			ov[filepath.Join(into, "zz_verif_"+base)] = data
		}
		return nil
	}
	if err := inject(u.Dir, pkgDir); err != nil {
		return nil, "", err
	}
	for _, eo := range u.ExtraOverlays {
		d := filepath.Join(repoRoot, strings.TrimPrefix(strings.TrimPrefix(eo.Pkg, repoModule), "/"))
		if err := inject(eo.Dir, d); err != nil {
			return nil, "", err
		}
	}
	return ov, pkgDir, nil
}

func pkgNameOf(importPath string) (string, error) {
	cfg := &packages.Config{Mode: packages.NeedName, Dir: repoRoot, Env: goEnv()}
	ps, err := packages.Load(cfg, importPath)
	if err != nil {
		return "", err
	}
	if len(ps) != 1 || ps[0].Name == "" {
		return "", fmt.Errorf("cannot resolve package %s", importPath)
	}
	return ps[0].Name, nil
}

func goEnv() []string {
	env := os.Environ()
	env = append(env, "GOFLAGS=-mod=mod", "GOPROXY=off", "GOSUMDB=off", "GOTOOLCHAIN=local")
	return env
}

func loadProgram(u *unitCfg, ov map[string][]byte, rc *runConfig) (*loadedProgram, error) {
	cfg := &packages.Config{
		Mode:       packages.LoadAllSyntax,
		Dir:        repoRoot,
		Env:        goEnv(),
		BuildFlags: []string{"-tags=verif"},
		Overlay:    ov,
	}
	t0 := time.Now()
	initial, err := packages.Load(cfg, u.Pkg)
	if err != nil {
		return nil, err
	}
	if n := packages.PrintErrors(initial); n > 0 {
		return nil, fmt.Errorf("%d package load errors (does the harness compile against the current tree?)", n)
	}
	prog, pkgs := ssautil.AllPackages(initial, ssa.InstantiateGenerics|ssa.SanityCheckFunctions&0)
	prog.Build()
	if rc.verbose {
		fmt.Fprintf(stderr, "loaded+built %d packages in %v\n", len(prog.AllPackages()), time.Since(t0))
	}
	lp := &loadedProgram{prog: prog, cfg: rc, harnessPkg: pkgs[0]}
	lp.sizes = &types.StdSizes{WordSize: 8, MaxAlign: 8}
	if rt := prog.ImportedPackage("runtime"); rt != nil {
		lp.runtimeErrorString = rt.Type("errorString").Object().Type()
	}
	lp.noopIfaces = map[string]bool{
		"github.com/containers/nri-plugins/pkg/log.Logger": true,
	}
	allow := map[string]bool{}
	for _, p := range defaultInitStd {
		allow[p] = true
	}
	for _, p := range u.InitPkgs {
		allow[p] = true
	}
	deny := map[string]bool{}
	for _, p := range u.NoInit {
		deny[p] = true
	}
	lp.initAllowed = func(path string) bool {
		if deny[path] {
			return false
		}
		if allow[path] {
			return true
		}
		if strings.HasPrefix(path, repoModule) {
			return !isNoopPkg(path)
		}
		return false
	}
	return lp, nil
}

var defaultInitStd = []string{"errors", "io", "io/fs", "internal/oserror", "strconv", "path", "path/filepath",
	"sort", "strings", "bytes", "math", "math/bits", "slices", "maps", "cmp", "unicode/utf8", "syscall", "context", "time"}

// ---- results

type unitResult struct {
	Unit, Harness string
	ex            *explorer
	wall          float64
}

type evidence struct {
	PropertyID  string                 `json:"property_id"`
	Tier        string                 `json:"tier"`
	Seed        int                    `json:"seed"`
	Level       string                 `json:"level"`
	Coverage    map[string]interface{} `json:"coverage"`
	Assumptions []string               `json:"assumptions"`
	WallS       float64                `json:"wall_s"`
	Violations  int                    `json:"violations"`
}

func main() {
	if len(os.Args) < 2 {
		fmt.Fprintln(os.Stderr, "usage: gosymex check <ID> [--tier quick|thorough] | replay <ID> <file> | list")
		os.Exit(64)
	}
	switch os.Args[1] {
	case "check":
		os.Exit(cmdCheck(os.Args[2:]))
	case "replay":
		os.Exit(cmdReplay(os.Args[2:]))
	case "simulate":
		os.Exit(cmdSimulate(os.Args[2:]))
	case "list":
		cf, err := loadChecks()
		if err != nil {
			fmt.Fprintln(os.Stderr, err)
			os.Exit(2)
		}
		ids := sortedKeys(cf.Properties)
		for _, id := range ids {
			for _, u := range cf.Properties[id].Units {
				fmt.Printf("%s %s %s %v\n", id, u.Name, u.Pkg, u.Entries)
			}
		}
	default:
		fmt.Fprintln(os.Stderr, "unknown command", os.Args[1])
		os.Exit(64)
	}
}

func cmdCheck(args []string) int {
	fs := flag.NewFlagSet("check", flag.ExitOnError)
	tier := fs.String("tier", envOr("VERIF_TIER", "quick"), "quick|thorough")
	only := fs.String("only", "", "comma-separated unit names")
	entryOnly := fs.String("entry", "", "comma-separated harness entries")
	verbose := fs.Bool("v", false, "verbose")
	trace := fs.Bool("trace", false, "trace instructions")
	solver := fs.String("solver", "", "z3|z3-new|cvc5|cvc5-int (default: per unit, else z3)")
	workers := fs.Int("workers", runtime.NumCPU(), "parallel workers")
	smtlog := fs.String("smtlog", "", "write worker 0's SMT session to this file")
	noReplay := fs.Bool("no-replay", false, "skip native replay (development only; findings are then inconclusive)")
	noEvidence := fs.Bool("no-evidence", false, "do not write the evidence file")
	var id string
	if len(args) > 0 && !strings.HasPrefix(args[0], "-") {
		id = args[0]
		args = args[1:]
	}
	fs.Parse(args)
	if id == "" && fs.NArg() > 0 {
		id = fs.Arg(0)
	}
	seed, _ := strconv.Atoi(os.Getenv("VERIF_SEED"))
	cf, err := loadChecks()
	if err != nil {
		fmt.Fprintln(os.Stderr, err)
		return 2
	}
	pc, ok := cf.Properties[id]
	if !ok {
		fmt.Fprintf(os.Stderr, "no check configured for %q\n", id)
		return 2
	}
	gSem = make(chan struct{}, *workers)
	if *verbose || os.Getenv("VERIF_SLOWLOG") != "" {
		slowLog = os.Stderr
	}
	t0 := time.Now()
	if *solver == "" {
		*solver = "z3"
	} else {
		defer func() {}()
	}
	c := &checker{id: id, tier: *tier, seed: seed, verbose: *verbose, trace: *trace, solver: *solver, solverForced: fs.Lookup("solver").Value.String() != "z3" || flagSet(fs, "solver"), workers: *workers,
		smtLog: *smtlog, noReplay: *noReplay, known: loadKnown()}
	for ui := range pc.Units {
		u := &pc.Units[ui]
		if *only != "" && !contains(strings.Split(*only, ","), u.Name) {
			continue
		}
		if u.Stubs == nil {
			u.Stubs = map[string]string{}
		}
		for k, v := range cf.DefaultStubs {
			if _, ok := u.Stubs[k]; !ok {
				u.Stubs[k] = v
			}
		}
		c.runUnit(u, *entryOnly)
	}
	code := c.finish(time.Since(t0).Seconds(), !*noEvidence && *only == "" && *entryOnly == "")
	return code
}

func contains(xs []string, s string) bool {
	for _, x := range xs {
		if x == s {
			return true
		}
	}
	return false
}

type checker struct {
	id, tier string
	seed     int
	verbose, trace bool
	solver   string
	solverForced bool
	workers  int
	smtLog   string
	noReplay bool
	known    []knownFinding

	results      []*unitResult
	inconclusive []string
	partial      []string // thorough tier: units whose exploration stopped at the time budget
	engineErrors []string
	violations   []string // VIOLATION lines
	knownLines   []string
	replayed     int
	cosim        int
	bounds       []string
	assumptions  []string
	funcs        map[string]bool
	stubsUsed    map[string]bool
}

func (c *checker) tierOf(u *unitCfg) tierCfg {
	t := u.Quick
	if c.tier == "thorough" {
		t = u.Thorough
		// inherit unset fields from quick
		if t.Params == nil {
			t.Params = u.Quick.Params
		}
		if t.Unwind == 0 {
			t.Unwind = u.Quick.Unwind
		}
		if t.TimeoutMs == 0 {
			t.TimeoutMs = 6 * u.Quick.TimeoutMs
		}
		if t.MaxSeconds == 0 {
			t.MaxSeconds = 10 * u.Quick.MaxSeconds
		}
		// VERIF_THOROUGH_BUDGET_S caps the per-unit time budget of the thorough tier
		if v, err := strconv.Atoi(os.Getenv("VERIF_THOROUGH_BUDGET_S")); err == nil && v > 0 && (t.MaxSeconds == 0 || v < t.MaxSeconds) {
			t.MaxSeconds = v
		}
	}
	if t.Unwind == 0 {
		t.Unwind = 64
	}
	if t.TimeoutMs == 0 {
		t.TimeoutMs = 20000
	}
	if t.MaxSteps == 0 {
		t.MaxSteps = 20_000_000
	}
	return t
}

func (c *checker) runUnit(u *unitCfg, entryOnly string) {
	tc := c.tierOf(u)
	if tc.Skip {
		return
	}
	entries := u.Entries
	if len(tc.Entries) > 0 {
		entries = tc.Entries
	}
	if entryOnly != "" {
		var e2 []string
		for _, e := range entries {
			if contains(strings.Split(entryOnly, ","), e) {
				e2 = append(e2, e)
			}
		}
		entries = e2
	}
	if len(entries) == 0 {
		return
	}
	solver := c.solver
	if u.Solver != "" && !c.solverForced {
		solver = u.Solver
	}
	rc := &runConfig{solver: solver, timeoutMs: tc.TimeoutMs, unwind: tc.Unwind, maxSteps: tc.MaxSteps, verbose: c.verbose,
		trace: c.trace, smtLog: c.smtLog, inlineGo: u.InlineGo, deferGo: u.DeferGo, stubs: u.Stubs, params: tc.Params, repoModule: repoModule}
	if rc.stubs == nil {
		rc.stubs = map[string]string{}
	}
	if rc.params == nil {
		rc.params = map[string]int{}
	} else {
		cp := map[string]int{}
		for k, v := range rc.params {
			cp[k] = v
		}
		rc.params = cp
	}
	rc.params["seed"] = c.seed
	tc.Params = rc.params
	pkgName, err := pkgNameOf(u.Pkg)
	if err != nil {
		c.engineErrors = append(c.engineErrors, fmt.Sprintf("%s: %v", u.Name, err))
		return
	}
	ov, pkgDir, err := overlayFor(u, pkgName, entries)
	if err != nil {
		c.engineErrors = append(c.engineErrors, fmt.Sprintf("%s: %v", u.Name, err))
		return
	}
	lp, err := loadProgram(u, ov, rc)
	if err != nil {
		c.engineErrors = append(c.engineErrors, fmt.Sprintf("%s: load: %v", u.Name, err))
		return
	}
	if u.Bounds != "" {
		c.bounds = append(c.bounds, u.Name+": "+u.Bounds+fmt.Sprintf(" [params %v, unwind %d, solver timeout %d ms]", tc.Params, tc.Unwind, tc.TimeoutMs))
	}
	for _, a := range u.Assumes {
		c.assumptions = append(c.assumptions, u.Name+": "+a)
	}
	for s, k := range u.Stubs {
		c.assumptions = append(c.assumptions, fmt.Sprintf("%s: stub %s = %s", u.Name, s, k))
	}
	var native *nativeRunner
	// explore (entries may run concurrently), then judge sequentially
	type job struct {
		entry string
		ex    *explorer
		wall  float64
	}
	jobs := make([]*job, len(entries))
	par := u.ParallelEntries
	if par <= 0 {
		par = 1
	}
	sem := make(chan struct{}, par)
	var wg sync.WaitGroup
	for k, entry := range entries {
		if lp.harnessPkg.Func(entry) == nil {
			c.engineErrors = append(c.engineErrors, fmt.Sprintf("%s: no harness function %s in %s", u.Name, entry, u.Pkg))
			continue
		}
		jobs[k] = &job{entry: entry}
		wg.Add(1)
		go func(j *job) {
			defer wg.Done()
			sem <- struct{}{}
			defer func() { <-sem }()
			t0 := time.Now()
			ex := newExplorer(rc, j.entry)
			ex.maxDecisions = 4000
			if tc.MaxSeconds > 0 {
				ex.deadline = time.Now().Add(time.Duration(tc.MaxSeconds) * time.Second)
			}
			ex.run(lp, j.entry, c.workers)
			j.ex, j.wall = ex, time.Since(t0).Seconds()
		}(jobs[k])
	}
	wg.Wait()
	for _, j := range jobs {
		if j == nil {
			continue
		}
		entry, ex := j.entry, j.ex
		r := &unitResult{Unit: u.Name, Harness: entry, ex: ex, wall: j.wall}
		c.results = append(c.results, r)
		if c.funcs == nil {
			c.funcs = map[string]bool{}
		}
		for f := range ex.funcsSeen {
			c.funcs[f] = true
		}
		fmt.Printf("[%s/%s] %s: paths=%d %s asserts(unsat=%d trivial=%d unknown=%d) findings=%d %.1fs\n",
			c.id, u.Name, entry, ex.paths, statusSummary(ex.statuses), sum(ex.assertPass), sum(ex.assertTrivial), sum(ex.assertUnknown), len(ex.findings), r.wall)
		key := u.Name + "/" + entry
		for _, p := range ex.problems {
			c.inconclusive = append(c.inconclusive, key+": "+p+fmt.Sprintf(" (x%d)", ex.problemSet[p]))
		}
		truncated := false
		if ex.timedOut {
			if c.tier == "thorough" {
				// the thorough tier explores as far as its time budget reaches: the verdict covers the paths completed
				truncated = true
				c.partial = append(c.partial, fmt.Sprintf("%s: time budget of %d s used up after %d completed paths; %d queued path prefixes unexplored (outside the verdict of this run)",
					key, tc.MaxSeconds, ex.paths, len(ex.work)+1))
			} else {
				c.inconclusive = append(c.inconclusive, key+": exploration exceeded its time budget")
			}
		}
		if n := sum(ex.assertUnknown); n > 0 {
			c.inconclusive = append(c.inconclusive, fmt.Sprintf("%s: %d assertion queries returned unknown", key, n))
		}
		if ex.paths > 0 && len(ex.coverCount) == 0 {
			c.inconclusive = append(c.inconclusive, key+": no cover point reached (vacuous harness?)")
		}
		for lbl, n := range ex.coverCount {
			if n == 0 && !truncated {
				c.inconclusive = append(c.inconclusive, key+": cover point "+lbl+" has no feasible witness")
			}
		}
		// native replay of findings and of cover witnesses
		if len(ex.findings) > 0 || !u.NoNativeCovers {
			if native == nil && !c.noReplay {
				native, err = newNativeRunner(u, pkgName, pkgDir, ov, entries)
				if err != nil {
					c.engineErrors = append(c.engineErrors, fmt.Sprintf("%s: native build: %v", u.Name, err))
					native = nil
				}
			}
		}
		c.judge(u, entry, ex, native, tc.Params)
	}
	if native != nil {
		native.close()
	}
}

func statusSummary(m map[pathStatus]int64) string {
	var parts []string
	for s := stDone; s <= stPanic; s++ {
		if m[s] > 0 {
			parts = append(parts, fmt.Sprintf("%s=%d", s, m[s]))
		}
	}
	return "{" + strings.Join(parts, " ") + "}"
}

func sum(m map[string]int64) int64 {
	var t int64
	for _, v := range m {
		t += v
	}
	return t
}

// judge replays findings natively and classifies them.
func (c *checker) judge(u *unitCfg, entry string, ex *explorer, native *nativeRunner, params map[string]int) {
	// co-simulation: cover witnesses must reach the same cover label natively
	if native != nil && !u.NoNativeCovers {
		for _, lbl := range sortedKeys(ex.coverWitness) {
			w := ex.coverWitness[lbl]
			if w == nil {
				continue
			}
			out, err := native.run(entry, w, params, "")
			// targets whose outcome depends on Go's random map order: the witness
			// is one of the possible orders, re-run until the native run takes it
			for try := 0; try < u.NativeRetries && err == nil && !contains(out.events, "cover "+lbl); try++ {
				out, err = native.run(entry, w, params, "")
			}
			c.cosim++
			if err != nil {
				c.engineErrors = append(c.engineErrors, fmt.Sprintf("%s/%s: native run for cover %s: %v", u.Name, entry, lbl, err))
				continue
			}
			if !contains(out.events, "cover "+lbl) {
				c.engineErrors = append(c.engineErrors, fmt.Sprintf("%s/%s: cover witness for %q does not reach it natively (outcome %s) — engine/model disagreement", u.Name, entry, lbl, out.outcome))
			}
		}
	}
	for n, f := range ex.findings {
		key := u.Name + "/" + entry + "/" + f.Label
		what := f.Label
		if f.Kind == "panic" {
			what = "panic: " + f.Detail
		}
		if native == nil {
			c.inconclusive = append(c.inconclusive, key+": counterexample found but not replayed natively: "+what)
			continue
		}
		rdir := filepath.Join(verifRoot, "replays", c.id)
		os.MkdirAll(rdir, 0o755)
		rpath := filepath.Join(rdir, fmt.Sprintf("%s-%s-%d.json", entry, sanitize(f.Label), n))
		var out *nativeOutcome
		var err error
		confirmed := false
		for try := 0; try <= u.NativeRetries && !confirmed; try++ {
			out, err = native.run(entry, f.Values, params, rpath)
			if err != nil {
				break
			}
			if f.Kind == "panic" {
				confirmed = strings.HasPrefix(out.outcome, "panic")
			} else {
				confirmed = contains(out.events, "assert-fail "+f.Label)
			}
		}
		c.replayed++
		if err != nil {
			c.engineErrors = append(c.engineErrors, fmt.Sprintf("%s: native replay: %v", key, err))
			continue
		}
		if !confirmed {
			os.Remove(rpath)
			c.engineErrors = append(c.engineErrors, fmt.Sprintf("%s: solver model does not reproduce natively (native outcome %q, events %v) — encoding/model error", key, out.outcome, out.events))
			continue
		}
		if f.Kind == "panic" {
			what = "panic: " + strings.TrimPrefix(out.outcome, "panic ")
		}
		if kf := c.matchKnown(key); kf != nil {
			line := fmt.Sprintf("KNOWN-FINDING: property=%s %s [%s]", c.id, kf.What, key)
			if !contains(c.knownLines, line) {
				c.knownLines = append(c.knownLines, line)
			}
			os.Remove(rpath)
			continue
		}
		c.violations = append(c.violations, fmt.Sprintf("VIOLATION property=%s replay=%s  (%s: %s)", c.id, rpath, key, what))
	}
}

func sanitize(s string) string {
	r := strings.NewReplacer("/", "_", " ", "_", ":", "_", "\"", "", "'", "")
	s = r.Replace(s)
	if len(s) > 60 {
		s = s[:60]
	}
	return s
}

func (c *checker) matchKnown(key string) *knownFinding {
	for i := range c.known {
		k := &c.known[i]
		if k.Property != c.id || k.Status == "fixed" {
			continue
		}
		if k.Key == key {
			return k
		}
		// "*/harness/label": the same finding in whichever unit (machine,
		// bounds) runs that harness
		if strings.HasPrefix(k.Key, "*/") {
			if i := strings.Index(key, "/"); i >= 0 && key[i:] == k.Key[1:] {
				return k
			}
		}
	}
	return nil
}

func (c *checker) finish(wall float64, writeEvidence bool) int {
	for _, l := range c.knownLines {
		fmt.Println(l)
	}
	sort.Strings(c.violations)
	seen := map[string]bool{}
	for _, v := range c.violations {
		// one line per (key) is enough
		k := v[strings.Index(v, "  ("):]
		if seen[k] {
			continue
		}
		seen[k] = true
		fmt.Println(v)
	}
	for _, e := range c.engineErrors {
		fmt.Println("ENGINE-ERROR:", e)
	}
	for _, e := range c.inconclusive {
		fmt.Println("INCONCLUSIVE:", e)
	}
	for _, e := range c.partial {
		fmt.Println("PARTIAL:", e)
	}
	if writeEvidence {
		if err := c.writeEvidence(wall); err != nil {
			fmt.Fprintln(os.Stderr, "evidence:", err)
			return 3
		}
	}
	fmt.Printf("solver: %d feasibility + %d assertion queries (sat %d, unsat %d, unknown %d, errors %d), %.1fs solver time; wall %.1fs\n",
		gStats.feasQueries, gStats.assertQueries, gStats.sat, gStats.unsat, gStats.unknown, gStats.errors, float64(gStats.nanos)/1e9, wall)
	switch {
	case len(c.violations) > 0:
		return 1
	case len(c.engineErrors) > 0:
		return 3
	case len(c.inconclusive) > 0:
		return 2
	case len(c.results) == 0:
		fmt.Println("ENGINE-ERROR: nothing was run")
		return 3
	}
	fmt.Printf("OK property=%s tier=%s\n", c.id, c.tier)
	return 0
}

func (c *checker) writeEvidence(wall float64) error {
	var states, transitions int64
	var samples []interface{}
	units := []interface{}{}
	for _, r := range c.results {
		ex := r.ex
		states += ex.paths
		transitions += ex.transitions
		covers := map[string]interface{}{}
		for _, lbl := range sortedKeys(ex.coverCount) {
			covers[lbl] = map[string]interface{}{"paths": ex.coverCount[lbl]}
			if w := ex.coverWitness[lbl]; w != nil && len(samples) < 40 {
				samples = append(samples, map[string]interface{}{"harness": r.Harness, "cover": lbl, "model": w})
			}
		}
		st := map[string]int64{}
		for s, n := range ex.statuses {
			st[s.String()] = n
		}
		units = append(units, map[string]interface{}{
			"unit": r.Unit, "harness": r.Harness, "paths": ex.paths, "path_status": st,
			"assertions_unsat": ex.assertPass, "assertions_trivially_true": ex.assertTrivial, "assertions_unknown": ex.assertUnknown,
			"cover_points": covers, "max_loop_unwinding_seen": ex.maxUnwindSeen, "wall_s": r.wall,
			"counterexamples": len(ex.findings),
		})
	}
	if states == 0 {
		states = 0
	}
	if transitions == 0 && states > 0 {
		transitions = states // every path has at least its entry transition
	}
	funcs := sortedKeys(c.funcs)
	cov := map[string]interface{}{
		"states":                        states,
		"transitions":                   transitions,
		"traces_validated_against_impl": c.replayed + c.cosim,
		"samples":                       samples,
		"explanation":                   "states = feasible symbolic paths completed; transitions = symbolic branch decisions taken on them; traces_validated_against_impl = solver models (cover witnesses and counterexamples) re-run against the natively compiled code",
		"units":                         units,
		"functions_encoded":             funcs,
		"functions_encoded_count":       len(funcs),
		"bounds":                        c.bounds,
		"queries": map[string]interface{}{"feasibility": gStats.feasQueries, "assertion": gStats.assertQueries, "sat": gStats.sat,
			"unsat": gStats.unsat, "unknown": gStats.unknown, "errors": gStats.errors},
		"solver_s":     float64(gStats.nanos) / 1e9,
		"solver":       c.solver,
		"inconclusive": c.inconclusive,
		"partial_units": c.partial,
		"exhaustive":    len(c.partial) == 0 && len(c.inconclusive) == 0,
		"engine_errors": c.engineErrors,
		"known_findings_reported": c.knownLines,
		"encoding":     "go/ssa of /repo working tree (+ harness overlay), regenerated on this run",
	}
	if len(samples) == 0 {
		cov["samples"] = []interface{}{"(no cover witness recorded)"}
	}
	ev := evidence{PropertyID: c.id, Tier: c.tier, Seed: c.seed, Level: "model_checking", Coverage: cov,
		Assumptions: c.assumptions, WallS: wall, Violations: len(c.violations)}
	if ev.Assumptions == nil {
		ev.Assumptions = []string{}
	}
	data, err := json.MarshalIndent(ev, "", " ")
	if err != nil {
		return err
	}
	dir := filepath.Join(verifRoot, "evidence")
	os.MkdirAll(dir, 0o755)
	return os.WriteFile(filepath.Join(dir, c.id+".json"), data, 0o644)
}

func cmdReplay(args []string) int {
	if len(args) < 2 {
		fmt.Fprintln(os.Stderr, "usage: gosymex replay <ID> <replay.json>")
		return 64
	}
	id, path := args[0], args[1]
	data, err := os.ReadFile(path)
	if err != nil {
		fmt.Fprintln(os.Stderr, err)
		return 2
	}
	var rf struct {
		Harness string            `json:"harness"`
		Unit    string            `json:"unit"`
		Values  map[string]string `json:"values"`
		Params  map[string]int    `json:"params"`
	}
	if err := json.Unmarshal(data, &rf); err != nil {
		fmt.Fprintln(os.Stderr, err)
		return 2
	}
	cf, err := loadChecks()
	if err != nil {
		fmt.Fprintln(os.Stderr, err)
		return 2
	}
	for ui := range cf.Properties[id].Units {
		u := &cf.Properties[id].Units[ui]
		if !contains(u.Entries, rf.Harness) && !contains(u.Thorough.Entries, rf.Harness) {
			continue
		}
		pkgName, err := pkgNameOf(u.Pkg)
		if err != nil {
			fmt.Fprintln(os.Stderr, err)
			return 2
		}
		entries := append(append([]string{}, u.Entries...), u.Thorough.Entries...)
		ov, pkgDir, err := overlayFor(u, pkgName, entries)
		if err != nil {
			fmt.Fprintln(os.Stderr, err)
			return 2
		}
		nr, err := newNativeRunner(u, pkgName, pkgDir, ov, entries)
		if err != nil {
			fmt.Fprintln(os.Stderr, err)
			return 2
		}
		defer nr.close()
		out, err := nr.run(rf.Harness, rf.Values, rf.Params, "")
		if err != nil {
			fmt.Fprintln(os.Stderr, err)
			return 2
		}
		if os.Getenv("VERIF_REPLAY_RAW") != "" {
			fmt.Println(out.raw)
		}
		fmt.Printf("outcome: %s\n", out.outcome)
		for _, e := range out.events {
			fmt.Println("event:", e)
		}
		for _, e := range out.events {
			if strings.HasPrefix(e, "assert-fail") {
				return 1
			}
		}
		if strings.HasPrefix(out.outcome, "panic") {
			return 1
		}
		return 0
	}
	fmt.Fprintln(os.Stderr, "harness not found in configuration:", rf.Harness)
	return 2
}

func flagSet(fs *flag.FlagSet, name string) bool {
	found := false
	fs.Visit(func(f *flag.Flag) {
		if f.Name == name {
			found = true
		}
	})
	return found
}

// cmdSimulate runs a replay vector in the ENGINE (concrete mode) and prints the
// events, for comparison with `replay` (the native run). Development aid.
func cmdSimulate(args []string) int {
	if len(args) < 2 {
		fmt.Fprintln(os.Stderr, "usage: gosymex simulate <ID> <replay.json>")
		return 64
	}
	id := args[0]
	data, err := os.ReadFile(args[1])
	if err != nil {
		fmt.Fprintln(os.Stderr, err)
		return 2
	}
	var rf struct {
		Harness string            `json:"harness"`
		Values  map[string]string `json:"values"`
		Params  map[string]int    `json:"params"`
	}
	if err := json.Unmarshal(data, &rf); err != nil {
		fmt.Fprintln(os.Stderr, err)
		return 2
	}
	cf, err := loadChecks()
	if err != nil {
		fmt.Fprintln(os.Stderr, err)
		return 2
	}
	for ui := range cf.Properties[id].Units {
		u := &cf.Properties[id].Units[ui]
		if !contains(u.Entries, rf.Harness) && !contains(u.Thorough.Entries, rf.Harness) {
			continue
		}
		rc := &runConfig{solver: "z3", timeoutMs: 20000, unwind: 2000, maxSteps: 50000000, verbose: len(args) > 2, inlineGo: u.InlineGo, deferGo: u.DeferGo,
			stubs: u.Stubs, params: rf.Params, repoModule: repoModule}
		if rc.stubs == nil {
			rc.stubs = map[string]string{}
		}
		pkgName, err := pkgNameOf(u.Pkg)
		if err != nil {
			fmt.Fprintln(os.Stderr, err)
			return 2
		}
		entries := append(append([]string{}, u.Entries...), u.Thorough.Entries...)
		ov, _, err := overlayFor(u, pkgName, entries)
		if err != nil {
			fmt.Fprintln(os.Stderr, err)
			return 2
		}
		lp, err := loadProgram(u, ov, rc)
		if err != nil {
			fmt.Fprintln(os.Stderr, err)
			return 2
		}
		ex := newExplorer(rc, rf.Harness)
		sol, err := startPrimary(rc)
		if err != nil {
			fmt.Fprintln(os.Stderr, err)
			return 2
		}
		defer sol.close()
		i := newInterpreter(lp, ex, sol)
		i.vector = rf.Values
		i.simulate = true
		i.path = &pathState{nondetCnt: map[string]int{}, varSet: map[string]*Expr{}, decided: map[exprKey]bool{}}
		status, detail := i.runHarness(rf.Harness)
		fmt.Printf("outcome: %s %s\n", status, detail)
		for _, e := range i.concreteEvents {
			fmt.Println("event:", e)
		}
		return 0
	}
	fmt.Fprintln(os.Stderr, "harness not found in configuration:", rf.Harness)
	return 2
}
