//go:build verif

package resmgr

// Request construction and dispatch shared by the C14 and C15 harnesses.

import (
	"context"

	"github.com/containerd/nri/pkg/api"

	"github.com/containers/nri-plugins/pkg/resmgr/cache"
)

var verifHandlerNames = []string{
	Synchronize,
	RunPodSandbox, StopPodSandbox, RemovePodSandbox,
	CreateContainer, StartContainer, UpdateContainer, StopContainer, RemoveContainer,
}

var (
	verifPodIDs = []string{"p0", "p1"} // p0: possibly known, p1: never seen unless a step creates it
	verifCtrIDs = []string{"c0", "c1"}
)

// verifReq is one NRI event.
type verifReq struct {
	name   string
	pod    string // pod handlers: the pod; container handlers: pod message passed along
	ctr    string
	ctrPod string // PodSandboxId inside the container message
	nilPod bool   // container handlers: pod argument is nil
	pods   []*api.PodSandbox
	ctrs   []*api.Container
}

// chooseReq lets the solver choose the next event: handler, ids (known,
// unknown or - after earlier steps - already removed), for CreateContainer
// also the pod the container claims to belong to, for Synchronize the
// runtime's lists.
func (w *verifWorld) chooseReq() verifReq {
	r := verifReq{name: verifHandlerNames[verifChoice("handler", len(verifHandlerNames))]}
	switch r.name {
	case Synchronize:
		switch verifChoice("sync.pods", 3) {
		case 1:
			r.pods = []*api.PodSandbox{w.podMsg("p0")}
		case 2:
			r.pods = []*api.PodSandbox{w.podMsg("p0"), w.podMsg("p1")}
		}
		switch verifChoice("sync.ctrs", 3) {
		case 1:
			r.ctrs = []*api.Container{w.ctrMsg("c0", "p0", api.ContainerState_CONTAINER_RUNNING)}
		case 2:
			r.ctrs = []*api.Container{
				w.ctrMsg("c0", "p0", api.ContainerState_CONTAINER_RUNNING),
				w.ctrMsg("c1", "p1", api.ContainerState_CONTAINER_CREATED),
			}
		}
	case RunPodSandbox, StopPodSandbox, RemovePodSandbox:
		r.pod = verifPodIDs[verifChoice("pod", len(verifPodIDs))]
	case CreateContainer:
		r.ctr = verifCtrIDs[verifChoice("ctr", len(verifCtrIDs))]
		r.ctrPod = verifPodIDs[verifChoice("ctr.pod", len(verifPodIDs))]
		r.pod = r.ctrPod
	default:
		r.ctr = verifCtrIDs[verifChoice("ctr", len(verifCtrIDs))]
		r.ctrPod = "p0"
		r.pod = "p0"
		if verifParam("nilpod", 0) == 1 {
			r.nilPod = verifChoice("nilpod", 2) == 1
		}
	}
	return r
}

type verifReply struct {
	err      error
	adjust   *api.ContainerAdjustment
	updates  []*api.ContainerUpdate
	panicked bool
}

// invoke delivers one event to the real handler.
func (w *verifWorld) invoke(prop string, r verifReq) verifReply {
	var (
		rpl verifReply
		ctx = context.Background()
		pod *api.PodSandbox
		ctr *api.Container
	)
	if r.pod != "" && !r.nilPod {
		pod = w.podMsg(r.pod)
	}
	if r.ctr != "" {
		ctr = w.ctrMsg(r.ctr, r.ctrPod, api.ContainerState_CONTAINER_CREATED)
	}
	rpl.panicked = w.call(prop, r.name, func() {
		switch r.name {
		case Synchronize:
			rpl.updates, rpl.err = w.p.Synchronize(ctx, r.pods, r.ctrs)
		case RunPodSandbox:
			rpl.err = w.p.RunPodSandbox(ctx, pod)
		case StopPodSandbox:
			rpl.err = w.p.StopPodSandbox(ctx, pod)
		case RemovePodSandbox:
			rpl.err = w.p.RemovePodSandbox(ctx, pod)
		case CreateContainer:
			rpl.adjust, rpl.updates, rpl.err = w.p.CreateContainer(ctx, pod, ctr)
		case StartContainer:
			rpl.err = w.p.StartContainer(ctx, pod, ctr)
		case UpdateContainer:
			rpl.updates, rpl.err = w.p.UpdateContainer(ctx, pod, ctr, w.resMsg())
		case StopContainer:
			rpl.updates, rpl.err = w.p.StopContainer(ctx, pod, ctr)
		case RemoveContainer:
			rpl.err = w.p.RemoveContainer(ctx, pod, ctr)
		case "reconfigure":
			rpl.err = w.m.reconfigure(w.cfg)
		case "processEvent":
			w.m.processEvent("event")
		}
	})
	return rpl
}

// seedInitial populates the cache: 0 = empty, 1 = pod p0, 2 = pod p0 with
// container c0 (running, name-mapped as CreateContainer leaves it).
func (w *verifWorld) seedInitial(k int) {
	if k >= 1 {
		w.seedPod("p0")
	}
	if k >= 2 {
		w.seedCtr("c0", "p0", cache.ContainerStateRunning, true)
	}
}
