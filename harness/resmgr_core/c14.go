//go:build verif

package resmgr

// C14 (handlers part): no sequence of NRI events crashes the resource
// manager's NRI handlers, and a refused request leaves the plugin able to
// serve later ones.
//
// Real code: all of pkg/resmgr/nri.go reachable from the nine handlers.
// The cache is the FAKE of common.go (the real one cannot be constructed
// from this package without file I/O). What this decides is therefore the
// handlers' own use of lookup results, error returns and the name map; it
// decides nothing about crashes inside package cache (annotation parsing,
// resource estimation, InsertContainer's error path).

import (
	"github.com/containers/nri-plugins/pkg/resmgr/cache"
)

func VerifC14Handlers() {
	w := verifNewWorld()
	w.mayFail = true
	// optional sub-messages of the NRI messages: 0 absent, 1 present, 2 solver's choice
	switch verifParam("linux", 2) {
	case 1:
		w.withLinux = true
	case 2:
		w.withLinux = verifChoice("linux", 2) == 1
	}
	w.seedInitial(verifChoice("initial", 3))

	n := verifParam("steps", 2)
	for k := 0; k < n; k++ {
		r := w.chooseReq()
		verifCover("C14.call." + r.name)
		rpl := w.invoke("C14", r)
		if rpl.panicked {
			return // the plugin process is gone
		}
		verifCover("C14.returned." + r.name)
		// a returned request (served or refused) leaves the lock free
		verifAssert("C14.lock-free-after."+r.name, verifRWMutexFree(&w.m.RWMutex))
	}

	// Follow-up: a complete, valid life cycle of a new pod and container
	// with a policy that does not fail must be served.
	w.mayFail = false
	verifCover("C14.follow-up")
	pod, ctr := "p2", "c2"
	step := func(name string) verifReply {
		rpl := w.invoke("C14.follow-up", verifReq{name: name, pod: pod, ctr: ctr, ctrPod: pod})
		if !rpl.panicked {
			verifAssert("C14.follow-up.served."+name, rpl.err == nil)
		}
		return rpl
	}
	state := func() cache.ContainerState {
		c, ok := w.cch.ctrs[ctr]
		if !ok {
			return cache.ContainerStateStale
		}
		return c.ctr.State
	}
	if step(RunPodSandbox).panicked {
		return
	}
	_, ok := w.cch.pods[pod]
	verifAssert("C14.follow-up.pod-cached", ok)
	rpl := step(CreateContainer)
	if rpl.panicked {
		return
	}
	verifAssert("C14.follow-up.adjusted", rpl.adjust != nil)
	verifAssert("C14.follow-up.created", state() == cache.ContainerStateCreated)
	if step(StartContainer).panicked {
		return
	}
	verifAssert("C14.follow-up.running", state() == cache.ContainerStateRunning)
	if step(UpdateContainer).panicked {
		return
	}
	if step(StopContainer).panicked {
		return
	}
	verifAssert("C14.follow-up.exited", state() == cache.ContainerStateExited)
	if step(RemoveContainer).panicked {
		return
	}
	_, ok = w.cch.ctrs[ctr]
	verifAssert("C14.follow-up.container-removed", !ok)
	ctr = ""
	if step(StopPodSandbox).panicked {
		return
	}
	if step(RemovePodSandbox).panicked {
		return
	}
	_, ok = w.cch.pods[pod]
	verifAssert("C14.follow-up.pod-removed", !ok)
	verifCover("C14.follow-up.done")
}
