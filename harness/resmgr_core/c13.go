//go:build verif

package resmgr

// C13 (resource-manager part): a rejected configuration update leaves the
// resource manager as if it had never been received, and every changed
// resource is pushed to the runtime. Real code: resmgr.reconfigure
// (resource-manager.go:294-342) and nriPlugin.updateContainers /
// getPendingUpdates (nri.go); fake policy, controllers, cache, stub and
// configuration objects (common.go).
//
// The fake policy rejects a configuration by an attribute of the
// configuration itself, so a configuration it accepted once is accepted
// again when reconfigure re-applies it. A rejecting policy may already have
// re-pinned containers when it fails (partial). An accepted configuration
// pins the live containers to a cpuset that names it, so "which configuration
// do the assignments belong to" is observable in the cache and in what the
// runtime was told.

import (
	"strconv"

	"github.com/containers/nri-plugins/pkg/resmgr/cache"
)

// label prefix of the assertions below: "C13", or "C05.reconfigure" when the
// same scenario is run for C05 (what is pushed to the runtime after a
// configuration update, accepted or reverted)
var verifC13P = "C13"

// VerifC05ReconfigurePush: the scenario of VerifC13ResmgrRevert, judged as
// C05's "updates are pushed after a reconfiguration": after every configuration
// update - accepted, rejected, or rejected after the policy re-pinned
// containers - the runtime has been told the current assignment, exactly one
// push followed the last policy call, and nothing is left pending.
func VerifC05ReconfigurePush() {
	verifC13P = "C05.reconfigure"
	defer func() { verifC13P = "C13" }()
	VerifC13ResmgrRevert()
}

func VerifC13ResmgrRevert() {
	w := verifNewWorld()
	w.withLinux = true
	w.mayFail = true // stub and (with "ctlfail": 1) controller failures
	w.pol.byAttr = true
	w.seedInitial(2) // pod p0, running container c0

	// the initial configuration is in effect everywhere
	accepted := &verifCfg{name: "0"}
	w.cfg = accepted
	w.m.cfg = accepted
	w.pol.inEffect = accepted
	c0 := w.cch.ctrs["c0"]
	c0.linuxCPU().Cpus = "cfg-0"
	told := "cfg-0" // cpuset of c0 the runtime was told last
	rejectedBefore := false

	n := verifParam("updates", 2)
	for k := 1; k <= n; k++ {
		cfg := &verifCfg{name: strconv.Itoa(k)}
		cfg.reject = verifChoice("reject", 2) == 1
		if cfg.reject {
			cfg.partial = verifChoice("partial", 2) == 1
		}
		cfg.common.Control.RDT.Enable = verifChoice("rdt", 2) == 1
		cfg.common.Control.BlockIO.Enable = !cfg.common.Control.RDT.Enable

		t0, c0n := len(w.trace), len(w.pol.configs)
		var err error
		if w.call("C13", "reconfigure", func() { err = w.m.reconfigure(cfg) }) {
			return
		}
		calls := w.pol.configs[c0n:]
		pushes, lastReconf, firstPush := 0, -1, -1
		for j, e := range w.trace[t0:] {
			switch e.kind {
			case "reconfigure":
				lastReconf = j
			case "push":
				pushes++
				if firstPush < 0 {
					firstPush = j
				}
				for _, u := range e.updates {
					if u.GetContainerId() == "c0" {
						told = u.GetLinux().GetResources().GetCpu().GetCpus()
					}
				}
			}
		}

		if cfg.reject {
			verifCover(verifC13P + ".rejected")
			if rejectedBefore {
				verifCover(verifC13P + ".rejected-twice-in-a-row")
			}
			verifAssert(verifC13P+".rejected.returns-error", err != nil)
			verifAssert(verifC13P+".rejected.calls", len(calls) == 2 && calls[0] == interface{}(cfg) && calls[1] == interface{}(accepted))
			verifAssert(verifC13P+".rejected.policy-in-effect", w.pol.inEffect == interface{}(accepted))
			verifAssert(verifC13P+".rejected.resmgr-cfg", w.m.cfg == accepted)
		} else {
			verifCover(verifC13P + ".accepted")
			verifAssert(verifC13P+".accepted.returns-nil", err == nil)
			verifAssert(verifC13P+".accepted.calls", len(calls) == 1 && calls[0] == interface{}(cfg))
			verifAssert(verifC13P+".accepted.policy-in-effect", w.pol.inEffect == interface{}(cfg))
			verifAssert(verifC13P+".accepted.resmgr-cfg", w.m.cfg == cfg)
			accepted = cfg
		}
		rejectedBefore = cfg.reject

		// whatever happened: everything belongs to the accepted configuration
		verifAssert(verifC13P+".assignment-of-accepted-config", c0.res().GetCpu().GetCpus() == "cfg-"+accepted.name)
		verifAssert(verifC13P+".cache-controls-of-accepted-config",
			w.cch.rdtControl == accepted.common.Control.RDT.Enable && w.cch.blockIOControl == accepted.common.Control.BlockIO.Enable)
		verifAssert(verifC13P+".controllers-of-accepted-config", w.ctl.lastCfg == &accepted.common.Control)
		// ... and every change was pushed to the runtime, once, after the
		// policy's last word
		verifAssert(verifC13P+".pushed-once-after-reconfigure", pushes == 1 && firstPush > lastReconf)
		verifAssert(verifC13P+".nothing-left-pending", len(w.cch.pending) == 0 && c0.request == nil)
		verifAssert(verifC13P+".runtime-told-current-assignment", told == c0.res().GetCpu().GetCpus())
		verifAssert(verifC13P+".lock-free", verifRWMutexFree(&w.m.RWMutex))
		if s := c0.ctr.State; s != cache.ContainerStateRunning {
			verifAssert(verifC13P+".container-state-untouched", false)
		}
	}
	verifCover(verifC13P + ".done")
}
