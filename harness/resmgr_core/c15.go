//go:build verif

package resmgr

// C15: request processing is serialized. Interleavings of whole handlers are
// not executed; the property is reduced to the per-handler obligation that
// implies it (DESIGN.md, C15): every access to the cache, to a cached pod or
// container, to the policy or to the controllers happens while the one
// resmgr.RWMutex is write-held, and the lock is free again when the handler
// returns. The sync.RWMutex model of the engine reports a second Lock while
// held as a "deadlock" panic.
//
// Labels (one per handler, so a handler known to violate the discipline can
// be recorded individually):
//   C15.locked.<handler>           every access: lock write-held
//   C15.mutation-locked.<handler>  state-changing accesses only
//   C15.released.<handler>         lock free at return

import (
	"github.com/containers/nri-plugins/pkg/resmgr/cache"
)

func VerifC15LockDiscipline() {
	w := verifNewWorld()
	w.withLinux = true
	w.mayFail = true
	w.seedInitial(2)
	// a second container of the pod with a pending, not yet delivered update:
	// the loops over GetPendingContainers have something to do
	if verifChoice("pending", 2) == 1 {
		o := w.seedCtr("c9", "p0", cache.ContainerState(1+2*verifChoice("pending.state", 3)), false) // created, running, stale
		o.ctr.Name = "other"
		o.getPendingRequest()
		o.markPending()
	}

	names := append(append([]string{}, verifHandlerNames...), "reconfigure", "processEvent")
	var r verifReq
	if k := verifChoice("which", 2+1); k < 2 {
		r.name = names[len(verifHandlerNames)+k]
	} else {
		r = w.chooseReq()
	}

	w.lockCheck = true
	verifCover("C15.call." + r.name)
	rpl := w.invoke("", r)
	w.lockCheck = false
	if !rpl.panicked {
		verifCover("C15.returned." + r.name)
	}
	if w.accesses > 0 {
		verifCover("C15.accessed." + r.name)
	}
	// One oracle per path (a failed constant assertion ends the path). A
	// handler that crashed (C14's finding) is still held to the discipline
	// for the accesses it made before.
	switch verifChoice("oracle", 3) {
	case 0:
		verifAssert("C15.locked."+r.name, w.unlocked == 0)
	case 1:
		verifAssert("C15.mutation-locked."+r.name, w.unlockedM == 0)
	case 2:
		if !rpl.panicked {
			verifAssert("C15.released."+r.name, verifRWMutexFree(&w.m.RWMutex))
		}
	}
}
