//go:build verif

package resmgr

// C11 (start-up part): "policy data is cleared on every start, so that
// allocations are rebuilt from what the runtime reports". Real code:
// resmgr.setupPolicy. The cache is the harness fake extended with the
// active-policy calls; policy.NewPolicy's sysfs discovery fails under the
// engine (harness model verifDiscoverSystem), natively it runs on this
// machine - the assertions only concern what setupPolicy did to the cache
// before that point.

import (
	"errors"

	"github.com/containers/nri-plugins/pkg/resmgr/cache"
	"github.com/containers/nri-plugins/pkg/resmgr/events"
	"github.com/containers/nri-plugins/pkg/resmgr/policy"
	system "github.com/containers/nri-plugins/pkg/sysfs"
)

// what the fake cache remembers about its saved policy data
type verifPolicyData struct {
	active string
	hasOld bool // entries saved by an earlier incarnation are still there
	resets int
}

var verifPD verifPolicyData

func (c *verifCache) GetActivePolicy() string { return verifPD.active }
func (c *verifCache) SetActivePolicy(name string) error {
	verifPD.active = name
	return nil
}
func (c *verifCache) ResetActivePolicy() error {
	verifPD.active, verifPD.hasOld = "", false
	verifPD.resets++
	return nil
}

func verifDiscoverSystem() (system.System, error) {
	return nil, errors.New("no sysfs under the engine")
}

type verifBackend struct{ name string }

func (b *verifBackend) Name() string                                         { return b.name }
func (b *verifBackend) Description() string                                  { return "harness backend" }
func (b *verifBackend) Setup(*policy.BackendOptions) error                   { return nil }
func (b *verifBackend) Reconfigure(interface{}) error                        { return nil }
func (b *verifBackend) Start() error                                         { return nil }
func (b *verifBackend) Sync([]cache.Container, []cache.Container) error      { return nil }
func (b *verifBackend) AllocateResources(cache.Container) error              { return nil }
func (b *verifBackend) ReleaseResources(cache.Container) error               { return nil }
func (b *verifBackend) UpdateResources(cache.Container) error                { return nil }
func (b *verifBackend) HandleEvent(*events.Policy) (bool, error)             { return false, nil }
func (b *verifBackend) ExportResourceData(cache.Container) map[string]string { return nil }
func (b *verifBackend) GetMetrics() policy.Metrics                           { return nil }
func (b *verifBackend) GetTopologyZones() []*policy.TopologyZone             { return nil }

// VerifC11SetupPolicy: whatever policy name and data the loaded cache holds
// (none, the same policy, another policy), setupPolicy leaves no policy data
// of an earlier incarnation behind and records the policy now starting.
func VerifC11SetupPolicy() {
	w := verifNewWorld()
	names := []string{"", "topology-aware", "balloons"}
	verifPD = verifPolicyData{active: names[verifChoice("saved-policy", 3)]}
	verifPD.hasOld = verifPD.active != "" && verifChoice("saved-data", 2) == 1
	backend := &verifBackend{name: names[1+verifChoice("starting-policy", 2)]}
	verifCover("C11.setup.call")
	_ = w.m.setupPolicy(backend) // its error (system discovery) is not the subject
	verifCover("C11.setup.returned")
	verifAssert("C11.setup.saved-policy-data-cleared", !verifPD.hasOld)
	verifAssert("C11.setup.active-policy-recorded", verifPD.active == backend.name)
}
