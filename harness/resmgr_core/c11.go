//go:build verif

package resmgr

// C11: classification at Synchronize. Real code: nriPlugin.Synchronize,
// syncWithNRI, syncNamesToContainers, getPendingUpdates; fake cache and a
// fake policy that records Sync(add, del).
//
// VerifC11Classify decides the contract of syncWithNRI itself for ANY
// result of the cache refresh (the lists RefreshPods/RefreshContainers
// report as purged and the states of the containers left in the cache are
// solver-chosen).
//
// VerifC11RuntimeView states the property in the runtime's terms (what the
// runtime lists, and in which state) over a fake cache that runs the real
// cache's refresh algorithm, which keeps the persisted state of a container
// it already knows (cache.go:717-729).

import (
	"context"

	"github.com/containerd/nri/pkg/api"

	"github.com/containers/nri-plugins/pkg/resmgr/cache"
)

func verifLive(s cache.ContainerState) bool {
	return verifOr(s == cache.ContainerStateCreated, s == cache.ContainerStateRunning)
}

var verifCtrNames = []string{"a", "b"}

func VerifC11Classify() {
	w := verifNewWorld()
	w.mayFail = true
	w.seedPod("p0")
	w.cch.script = &verifRefreshScript{}

	n := verifParam("containers", 3)
	var (
		ctrs   []*verifCtr
		roles  []int
		states []cache.ContainerState
	)
	for k := 0; k < n; k++ {
		// 0: left in the cache, 1: purged by RefreshPods, 2: purged by RefreshContainers
		role := verifChoice("role", 3)
		st := cache.ContainerState(verifNondetInt32("state"))
		verifAssume(verifAnd(st >= cache.ContainerStateCreating, st <= cache.ContainerStateStale))
		c := w.seedCtr("c"+string(rune('0'+k)), "p0", st, false)
		c.ctr.Name = verifCtrNames[verifChoice("name", len(verifCtrNames))]
		switch role {
		case 1:
			w.cch.script.podsDeleted = append(w.cch.script.podsDeleted, c)
		case 2:
			w.cch.script.ctrsDeleted = append(w.cch.script.ctrsDeleted, c)
		}
		ctrs, roles, states = append(ctrs, c), append(roles, role), append(states, st)
	}
	// the name map may already know a container (an earlier instance that is
	// not in the cache any more)
	var ghost *verifCtr
	if verifChoice("ghost", 2) == 1 {
		ghost = &verifCtr{cch: w.cch, ctr: w.ctrMsg("old", "p0", cache.ContainerStateRunning)}
		ghost.ctr.Name = "a"
		w.p.byname["ns/pod-p0/a"] = ghost
	}

	verifCover("C11.classify.call")
	updates, err := w.p.Synchronize(context.Background(), nil, nil)

	verifAssert("C11.one-policy-sync", len(w.pol.syncs) == 1)
	if len(w.pol.syncs) != 1 {
		return
	}
	add, del := w.pol.syncs[0].add, w.pol.syncs[0].del
	for k, c := range ctrs {
		nAdd := verifCount(add, c)
		inDel := verifIn(del, c)
		wantAdd := verifAnd(roles[k] == 0, verifLive(states[k]))
		verifAssert("C11.add-exact", (nAdd >= 1) == wantAdd)
		verifAssert("C11.add-no-duplicates", nAdd <= 1)
		verifAssert("C11.purged-released", verifImplies(roles[k] != 0, inDel))
		verifAssert("C11.exited-released", verifImplies(verifAnd(roles[k] == 0, states[k] == cache.ContainerStateExited), inDel))
		verifAssert("C11.release-before-allocate", verifImplies(nAdd >= 1, inDel))
		if nAdd >= 1 {
			verifCover("C11.classify.allocated")
			if err == nil {
				// the name of every allocated container maps to an allocated container
				m, ok := w.p.byname[c.PrettyName()]
				verifAssert("C11.names-mapped", ok && verifIn(add, m))
			}
		}
		if roles[k] != 0 {
			verifCover("C11.classify.purged")
		}
	}
	if ghost != nil {
		mapped := false
		for _, c := range add {
			if c.PrettyName() == "ns/pod-p0/a" {
				mapped = true
			}
		}
		if mapped {
			verifCover("C11.classify.ghost-unmapped")
			verifAssert("C11.replaced-instance-released", verifIn(del, ghost))
		}
	}
	for _, c := range add {
		known := false
		for _, x := range ctrs {
			if cache.Container(x) == c {
				known = true
			}
		}
		verifAssert("C11.add-only-cached", known)
	}
	if err != nil {
		verifCover("C11.classify.sync-failed")
		verifAssert("C11.failed-sync-no-updates", updates == nil)
	} else {
		verifCover("C11.classify.synced")
		verifAssert("C11.updates-returned", updates != nil)
	}
	verifAssert("C11.lock-free", verifRWMutexFree(&w.m.RWMutex))
}

// every value a persisted container state can have
var verifPersisted = []cache.ContainerState{cache.ContainerStateCreating, cache.ContainerStateUnknown, cache.ContainerStateCreated, api.ContainerState_CONTAINER_PAUSED, cache.ContainerStateRunning, cache.ContainerStateExited, cache.ContainerStateStale}

func VerifC11RuntimeView() {
	w := verifNewWorld()
	w.seedPod("p0") // listed by the runtime
	w.seedPod("p1") // not listed any more

	n := verifParam("containers", 2)
	type item struct {
		id        string
		kind      int
		persisted int
		rt        cache.ContainerState
		c         *verifCtr
	}
	var (
		items  []item
		listed []*api.Container
	)
	for k := 0; k < n; k++ {
		it := item{id: "c" + string(rune('0'+k))}
		// 0: cached and listed, 1: cached, not listed (its pod is),
		// 2: not cached, listed, 3: cached in the pod that is gone
		it.kind = verifChoice("kind", 4)
		name := "n" + it.id
		if it.kind != 2 {
			it.persisted = verifChoice("persisted", len(verifPersisted))
			pod := "p0"
			if it.kind == 3 {
				pod = "p1"
			}
			it.c = w.seedCtr(it.id, pod, verifPersisted[it.persisted], false)
			it.c.ctr.Name = name
		}
		if it.kind == 0 || it.kind == 2 {
			it.rt = cache.ContainerState(verifNondetInt32("runtime.state"))
			verifAssume(verifAnd(it.rt >= api.ContainerState_CONTAINER_UNKNOWN, it.rt <= api.ContainerState_CONTAINER_STOPPED))
			m := w.ctrMsg(it.id, "p0", it.rt)
			m.Name = name
			listed = append(listed, m)
		}
		items = append(items, it)
	}

	verifCover("C11.runtime.call")
	_, err := w.p.Synchronize(context.Background(), []*api.PodSandbox{w.podMsg("p0")}, listed)
	verifAssert("C11.runtime.synced", err == nil && len(w.pol.syncs) == 1)
	if len(w.pol.syncs) != 1 {
		return
	}
	add, del := w.pol.syncs[0].add, w.pol.syncs[0].del
	for _, it := range items {
		cached, inCache := w.cch.ctrs[it.id]
		switch it.kind {
		case 1, 3:
			verifCover("C11.runtime.unlisted")
			verifAssert("C11.unlisted-purged", !inCache)
			verifAssert("C11.unlisted-released", verifIn(del, it.c))
			verifAssert("C11.unlisted-not-allocated", !verifIn(add, it.c))
		case 2:
			verifCover("C11.runtime.new")
			verifAssert("C11.new-cached", inCache)
			if inCache {
				verifAssert("C11.new-allocated-iff-live", verifIn(add, cached) == verifLive(it.rt))
			}
		case 0:
			verifCover("C11.runtime.known")
			verifAssert("C11.known-kept", inCache && cached == it.c)
			in := verifIn(add, it.c)
			// the property, in the runtime's terms; "missed" is split so that
			// the case met in practice (the cache is not saved after
			// CreateContainer/StartContainer changed the state, so the most
			// recently created container is persisted as `creating`) has
			// its own label
			p := "other"
			if verifPersisted[it.persisted] == cache.ContainerStateCreating {
				p = "creating"
			}
			verifAssert("C11.runtime-view.missed."+p, verifImplies(verifLive(it.rt), in))
			verifAssert("C11.runtime-view.spurious", verifImplies(in, verifLive(it.rt)))
		}
	}
}
