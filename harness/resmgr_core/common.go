//go:build verif

package resmgr

// Shared fixtures of the resource-manager harnesses (C14 handlers, C15, C11).
//
// The code under test is the real nriPlugin (pkg/resmgr/nri.go) on a real
// resmgr struct. Its collaborators are FAKES implemented here:
//
//   verifCache   cache.Cache      maps of pods/containers, same lookup/insert/
//                                 delete/refresh semantics as pkg/resmgr/cache
//                                 (LookupPod/LookupContainer return a TYPED-NIL
//                                 object and false for an unknown id, exactly
//                                 like the real `p, ok := cch.Pods[id]; return p, ok`)
//   verifPod     cache.Pod        wraps the NRI pod message
//   verifCtr     cache.Container  wraps the NRI container message; pending
//                                 adjustment/update bookkeeping as in container.go
//   verifPolicy  policy.Policy    records calls, modifies containers through the
//                                 cache API, fails on solver's choice
//   verifControl control.Control  hook results on solver's choice
//   verifStub    stub.Stub        UpdateContainers only
//   verifCfg     cfgapi.ResmgrConfig
//
// Every fake embeds the interface it implements (nil), so a method the code
// under test calls and that is not implemented here is a nil dereference the
// engine reports. Every fake method reports the access to verifWorld.access,
// which under C15 checks that the resmgr lock is write-held.
//
// Deliberate deviation from the real cache: InsertContainer for a container
// whose pod is unknown returns (nil, error) here; the real one dereferences
// the nil container while formatting that error (cache.go:600-603, a cache
// defect that belongs to the cache harnesses, not to the handlers).

import (
	"errors"
	"strings"
	"sync"

	"github.com/containerd/nri/pkg/api"
	"github.com/containerd/nri/pkg/stub"
	v1 "k8s.io/api/core/v1"

	"github.com/containers/nri-plugins/pkg/agent"
	"github.com/containers/nri-plugins/pkg/agent/podresapi"
	cfgapi "github.com/containers/nri-plugins/pkg/apis/config/v1alpha1"
	ctlcfg "github.com/containers/nri-plugins/pkg/apis/config/v1alpha1/resmgr/control"
	"github.com/containers/nri-plugins/pkg/resmgr/cache"
	"github.com/containers/nri-plugins/pkg/resmgr/control"
	"github.com/containers/nri-plugins/pkg/resmgr/events"
	"github.com/containers/nri-plugins/pkg/resmgr/policy"
)

// ---- lock-state observers (engine intrinsics, see engine/ext_resmgr.go).
// Natively the harness is the only goroutine, so a failing TryRLock means
// the lock is write-held and a succeeding TryLock means it is free.

func verifRWMutexWriteHeld(mu *sync.RWMutex) bool {
	if mu.TryRLock() {
		mu.RUnlock()
		return false
	}
	return true
}

func verifRWMutexFree(mu *sync.RWMutex) bool {
	if mu.TryLock() {
		mu.Unlock()
		return true
	}
	return false
}

// ---- world

type verifWorld struct {
	p   *nriPlugin
	m   *resmgr
	cch *verifCache
	pol *verifPolicy
	ctl *verifControl
	stb *verifStub
	cfg *verifCfg

	handler   string // handler being executed (assertion label suffix)
	lockCheck bool   // C15: every access asserts the lock is write-held
	sectionSeen    bool // C15 atomicity: critical section of the first access of the request
	section        int
	sectionChanges int // accesses made in another critical section than the first
	mayFail   bool   // policy/controller results are solver-chosen (else success)
	withLinux bool   // NRI messages carry their optional sub-messages
	trace     []verifTraceEvent
	accesses  int // number of cache/policy/control accesses seen
	unlocked  int // ... of them without the resmgr lock write-held (lockCheck)
	unlockedM int // ... of them state-changing
}

func verifNewWorld() *verifWorld {
	w := &verifWorld{}
	w.cch = &verifCache{w: w, pods: map[string]*verifPod{}, ctrs: map[string]*verifCtr{}}
	w.pol = &verifPolicy{w: w}
	w.ctl = &verifControl{w: w}
	w.stb = &verifStub{w: w}
	w.cfg = &verifCfg{}
	w.m = &resmgr{
		agent:   &agent.Agent{}, // no pod-resources client, no NRT client
		cfg:     w.cfg,
		cache:   w.cch,
		policy:  w.pol,
		control: w.ctl,
		running: true,
	}
	w.p = &nriPlugin{resmgr: w.m, stub: w.stb, byname: make(map[string]cache.Container)}
	w.m.nri = w.p
	return w
}

// access is called by every fake method.
// verifSectionOf, when set (unit resmgr-atomic), tells which critical section
// of the resmgr lock is running: the number of write acquisitions so far.
var verifSectionOf func(m *resmgr) int

func (w *verifWorld) access(mutating bool) {
	w.accesses++
	if verifSectionOf != nil && w.lockCheck {
		s := verifSectionOf(w.m)
		if !w.sectionSeen {
			w.sectionSeen, w.section = true, s
		} else if s != w.section {
			w.sectionChanges++
		}
	}
	if !w.lockCheck {
		return
	}
	// Violations are counted and asserted when the handler has returned: a
	// failed assertion with a constant condition ends the path, which would
	// hide everything the handler does afterwards.
	if !verifRWMutexWriteHeld(&w.m.RWMutex) {
		w.unlocked++
		if mutating {
			w.unlockedM++
		}
	}
}

func (w *verifWorld) fails(what string) bool {
	return w.mayFail && verifNondetBool(what+".fails")
}

// call runs one handler. A panic that escapes the handler is turned into a
// failed assertion labelled with the handler (in the plugin it would kill the
// process: the ttrpc server does not recover).
func (w *verifWorld) call(prop, name string, f func()) (panicked bool) {
	w.handler = name
	defer func() {
		if r := recover(); r != nil {
			if s, ok := r.(verifStop); ok {
				panic(s)
			}
			panicked = true
			// the engine's lock model reports a second Lock of the held
			// (non-reentrant) lock as a panic; natively the handler would
			// hang instead
			if e, ok := r.(error); ok && strings.Contains(e.Error(), "deadlock") {
				lp := prop
				if lp == "" {
					lp = "C15"
				}
				verifAssert(lp+".no-deadlock."+name, false)
			}
			if prop != "" {
				verifAssert(prop+".no-panic."+name, false)
			}
		}
	}()
	f()
	return false
}

// ---- NRI messages

func (w *verifWorld) podMsg(id string) *api.PodSandbox {
	p := &api.PodSandbox{Id: id, Name: "pod-" + id, Uid: "uid-" + id, Namespace: "ns"}
	if w.withLinux {
		p.Linux = &api.LinuxPodSandbox{CgroupParent: "/kubepods/pod" + id}
		p.Labels = map[string]string{"app": "x"}
		p.Annotations = map[string]string{"k": "v"}
	}
	return p
}

// ctrMsg: all containers are called "ctr", so two containers of one pod
// collide on their pretty name (the byname remapping of CreateContainer).
func (w *verifWorld) ctrMsg(id, podID string, state api.ContainerState) *api.Container {
	c := &api.Container{Id: id, PodSandboxId: podID, Name: "ctr", State: state}
	if w.withLinux {
		c.Linux = &api.LinuxContainer{
			Resources: &api.LinuxResources{
				Cpu:    &api.LinuxCPU{Shares: api.UInt64(uint64(1024)), Cpus: "0-3"},
				Memory: &api.LinuxMemory{Limit: api.Int64(int64(1 << 20))},
			},
		}
	}
	return c
}

func (w *verifWorld) resMsg() *api.LinuxResources {
	r := &api.LinuxResources{}
	if w.withLinux {
		r.Cpu = &api.LinuxCPU{Shares: api.UInt64(uint64(512))}
	}
	return r
}

// seedPod/seedCtr put objects into the fake cache directly (set-up, no
// access reporting), the way an earlier RunPodSandbox/CreateContainer would.
func (w *verifWorld) seedPod(id string) *verifPod {
	p := &verifPod{cch: w.cch, pod: w.podMsg(id)}
	w.cch.pods[id] = p
	w.cch.podOrder = append(w.cch.podOrder, id)
	return p
}

func (w *verifWorld) seedCtr(id, podID string, state cache.ContainerState, mapped bool) *verifCtr {
	c := &verifCtr{cch: w.cch, ctr: w.ctrMsg(id, podID, state)}
	w.cch.ctrs[id] = c
	w.cch.ctrOrder = append(w.cch.ctrOrder, id)
	if mapped {
		w.p.byname["ns/pod-"+podID+"/ctr"] = c
	}
	return c
}

// ---- fake cache

type verifCache struct {
	cache.Cache
	w        *verifWorld
	pods     map[string]*verifPod
	ctrs     map[string]*verifCtr
	podOrder []string // ids in insertion order (deterministic iteration)
	ctrOrder []string
	pending  []string // ids of containers with pending changes

	rdtControl, blockIOControl bool // last Configure*Control argument

	// scripted refresh results (C11 classification harness); nil = the real
	// cache's refresh algorithm over pods/ctrs.
	script *verifRefreshScript
}

type verifRefreshScript struct {
	podsDeleted []cache.Container // containers RefreshPods reports as purged
	ctrsDeleted []cache.Container // containers RefreshContainers reports as purged
}

func verifDrop(l []string, id string) []string {
	out := l[:0:0]
	for _, x := range l {
		if x != id {
			out = append(out, x)
		}
	}
	return out
}

func verifHas(l []string, id string) bool {
	for _, x := range l {
		if x == id {
			return true
		}
	}
	return false
}

func (cch *verifCache) ConfigureRDTControl(on bool)     { cch.w.access(true); cch.rdtControl = on }
func (cch *verifCache) ConfigureBlockIOControl(on bool) { cch.w.access(true); cch.blockIOControl = on }
func (cch *verifCache) Save() error                     { cch.w.access(false); return nil }

func (cch *verifCache) ContainerDirectory(id string) string {
	cch.w.access(false)
	return "/verif-cache/containers/" + id
}

func (cch *verifCache) insertPod(nriPod *api.PodSandbox) *verifPod {
	p := &verifPod{cch: cch, pod: nriPod}
	id := nriPod.GetId()
	if _, ok := cch.pods[id]; !ok {
		cch.podOrder = append(cch.podOrder, id)
	}
	cch.pods[id] = p
	return p
}

func (cch *verifCache) InsertPod(nriPod *api.PodSandbox, ch <-chan *podresapi.PodResources) cache.Pod {
	cch.w.access(true)
	return cch.insertPod(nriPod)
}

func (cch *verifCache) deletePod(id string) *verifPod {
	p, ok := cch.pods[id]
	if !ok {
		return nil
	}
	delete(cch.pods, id)
	cch.podOrder = verifDrop(cch.podOrder, id)
	return p
}

func (cch *verifCache) DeletePod(id string) cache.Pod {
	cch.w.access(true)
	p := cch.deletePod(id)
	if p == nil {
		return nil
	}
	return p
}

// LookupPod: as in the real cache the result for an unknown id is a non-nil
// interface holding a nil pointer, and false.
func (cch *verifCache) LookupPod(id string) (cache.Pod, bool) {
	cch.w.access(false)
	p, ok := cch.pods[id]
	return p, ok
}

func (cch *verifCache) insertContainer(ctr *api.Container, creating bool) (*verifCtr, error) {
	podID := ctr.GetPodSandboxId()
	if _, ok := cch.pods[podID]; !ok {
		return nil, errors.New("failed to insert container: can't find cached pod")
	}
	c := &verifCtr{cch: cch, ctr: ctr}
	if creating {
		c.ctr.State = cache.ContainerStateCreating
	}
	id := c.GetID()
	if _, ok := cch.ctrs[id]; !ok {
		cch.ctrOrder = append(cch.ctrOrder, id)
	}
	cch.ctrs[id] = c
	return c, nil
}

// InsertContainer: the only option of package cache is WithContainerState,
// which the handlers use with ContainerStateCreating; its argument type is
// unexported, so "an option was passed" is all the fake can see.
func (cch *verifCache) InsertContainer(ctr *api.Container, opts ...cache.InsertContainerOption) (cache.Container, error) {
	cch.w.access(true)
	c, err := cch.insertContainer(ctr, len(opts) > 0)
	if err != nil {
		return nil, err
	}
	return c, nil
}

func (cch *verifCache) deleteContainer(id string) *verifCtr {
	c, ok := cch.ctrs[id]
	if !ok {
		return nil
	}
	delete(cch.ctrs, id)
	cch.ctrOrder = verifDrop(cch.ctrOrder, id)
	return c
}

func (cch *verifCache) DeleteContainer(id string) cache.Container {
	cch.w.access(true)
	c := cch.deleteContainer(id)
	if c == nil {
		return nil
	}
	return c
}

func (cch *verifCache) LookupContainer(id string) (cache.Container, bool) {
	cch.w.access(false)
	c, ok := cch.ctrs[id]
	return c, ok
}

func (cch *verifCache) GetPendingContainers() []cache.Container {
	cch.w.access(false)
	pending := make([]cache.Container, 0, len(cch.pending))
	for _, id := range cch.pending {
		if c, ok := cch.ctrs[id]; ok {
			pending = append(pending, c)
		}
	}
	return pending
}

func (cch *verifCache) GetPods() []cache.Pod {
	cch.w.access(false)
	pods := make([]cache.Pod, 0, len(cch.podOrder))
	for _, id := range cch.podOrder {
		pods = append(pods, cch.pods[id])
	}
	return pods
}

func (cch *verifCache) GetContainers() []cache.Container {
	cch.w.access(false)
	ctrs := make([]cache.Container, 0, len(cch.ctrOrder))
	for _, id := range cch.ctrOrder {
		ctrs = append(ctrs, cch.ctrs[id])
	}
	return ctrs
}

// RefreshPods: cache.go:668-708 (no pod-resources channel: the agent of the
// harness has no client).
func (cch *verifCache) RefreshPods(pods []*api.PodSandbox, resCh <-chan *podresapi.PodResourcesList) ([]cache.Pod, []cache.Pod, []cache.Container) {
	cch.w.access(true)
	add, del, containers := []cache.Pod{}, []cache.Pod{}, []cache.Container{}
	if cch.script != nil {
		for _, c := range cch.script.podsDeleted {
			cch.deleteContainer(c.GetID())
		}
		return add, del, cch.script.podsDeleted
	}
	valid := map[string]struct{}{}
	for _, item := range pods {
		valid[item.Id] = struct{}{}
		if _, ok := cch.pods[item.Id]; !ok {
			add = append(add, cch.insertPod(item))
		}
	}
	for _, id := range append([]string{}, cch.podOrder...) {
		if _, ok := valid[id]; !ok {
			del = append(del, cch.deletePod(id))
		}
	}
	for _, id := range append([]string{}, cch.ctrOrder...) {
		c := cch.ctrs[id]
		if _, ok := valid[c.GetPodID()]; !ok {
			cch.deleteContainer(id)
			c.ctr.State = cache.ContainerStateStale
			containers = append(containers, c)
		}
	}
	return add, del, containers
}

// RefreshContainers: cache.go:711-746. As there, the state of a container
// that is already cached is NOT refreshed from the runtime's report.
func (cch *verifCache) RefreshContainers(containers []*api.Container) ([]cache.Container, []cache.Container) {
	cch.w.access(true)
	add, del := []cache.Container{}, []cache.Container{}
	if cch.script != nil {
		for _, c := range cch.script.ctrsDeleted {
			cch.deleteContainer(c.GetID())
		}
		return add, cch.script.ctrsDeleted
	}
	valid := map[string]struct{}{}
	for _, c := range containers {
		valid[c.Id] = struct{}{}
		if _, ok := cch.ctrs[c.Id]; !ok {
			if inserted, err := cch.insertContainer(c, false); err == nil {
				add = append(add, inserted)
			}
		}
	}
	for _, id := range append([]string{}, cch.ctrOrder...) {
		c := cch.ctrs[id]
		if _, ok := valid[id]; !ok {
			cch.deleteContainer(id)
			c.ctr.State = cache.ContainerStateStale
			del = append(del, c)
		}
	}
	return add, del
}

// ---- fake pod

type verifPod struct {
	cache.Pod
	cch *verifCache
	pod *api.PodSandbox
}

func (p *verifPod) GetContainers() []cache.Container {
	p.cch.w.access(false)
	containers := []cache.Container{}
	for _, id := range p.cch.ctrOrder {
		if c := p.cch.ctrs[id]; c.GetPodID() == p.GetID() {
			containers = append(containers, c)
		}
	}
	return containers
}

func (p *verifPod) GetID() string        { p.cch.w.access(false); return p.pod.GetId() }
func (p *verifPod) GetUID() string       { p.cch.w.access(false); return p.pod.GetUid() }
func (p *verifPod) GetName() string      { p.cch.w.access(false); return p.pod.GetName() }
func (p *verifPod) GetNamespace() string { p.cch.w.access(false); return p.pod.GetNamespace() }
func (p *verifPod) PrettyName() string {
	p.cch.w.access(false)
	return p.pod.GetNamespace() + "/" + p.pod.GetName()
}
func (p *verifPod) GetQOSClass() v1.PodQOSClass { p.cch.w.access(false); return v1.PodQOSBurstable }

// ---- fake container

type verifCtr struct {
	cache.Container
	cch     *verifCache
	ctr     *api.Container
	request interface{} // pending *api.ContainerAdjustment or *api.ContainerUpdate
	pend    []string    // controllers with pending changes
	updates bool        // SetResourceUpdates was called
	rdt     string
	blkio   string
}

const verifNRI = "nri" // name of the NRI "controller" (cache.NRI)

func (c *verifCtr) GetID() string    { c.cch.w.access(false); return c.ctr.GetId() }
func (c *verifCtr) GetPodID() string { c.cch.w.access(false); return c.ctr.GetPodSandboxId() }
func (c *verifCtr) GetName() string  { c.cch.w.access(false); return c.ctr.GetName() }

func (c *verifCtr) GetPod() (cache.Pod, bool) {
	c.cch.w.access(false)
	if pod, ok := c.cch.pods[c.ctr.GetPodSandboxId()]; ok {
		return pod, ok
	}
	return nil, false
}

func (c *verifCtr) PrettyName() string {
	c.cch.w.access(false)
	if pod, ok := c.cch.pods[c.ctr.GetPodSandboxId()]; ok {
		return pod.pod.GetNamespace() + "/" + pod.pod.GetName() + "/" + c.ctr.GetName()
	}
	return "<unknown-pod " + c.ctr.GetPodSandboxId() + ">/" + c.ctr.GetName()
}

func (c *verifCtr) UpdateState(state cache.ContainerState) {
	c.cch.w.access(true)
	c.ctr.State = state
}

func (c *verifCtr) GetState() cache.ContainerState { c.cch.w.access(false); return c.ctr.State }
func (c *verifCtr) GetQOSClass() v1.PodQOSClass    { c.cch.w.access(false); return v1.PodQOSBurstable }
func (c *verifCtr) GetRDTClass() string            { c.cch.w.access(false); return c.rdt }
func (c *verifCtr) GetBlockIOClass() string        { c.cch.w.access(false); return c.blkio }

func (c *verifCtr) GetResourceRequirements() v1.ResourceRequirements {
	c.cch.w.access(false)
	return v1.ResourceRequirements{}
}

// SetResourceUpdates: whether the update changes the requirements is the
// solver's choice (the real one compares estimated requirements); in the
// follow-up phase (mayFail off) it always does.
func (c *verifCtr) SetResourceUpdates(r *api.LinuxResources) bool {
	c.cch.w.access(true)
	c.updates = true
	if !c.cch.w.mayFail {
		return true
	}
	return verifNondetBool("realUpdates")
}

func (c *verifCtr) GetResourceUpdates() (v1.ResourceRequirements, bool) {
	c.cch.w.access(false)
	return v1.ResourceRequirements{}, c.updates
}

func (c *verifCtr) getPendingRequest() interface{} {
	if c.request == nil {
		if c.ctr.State == cache.ContainerStateCreating {
			c.request = &api.ContainerAdjustment{}
		} else {
			c.request = &api.ContainerUpdate{ContainerId: c.ctr.GetId()}
		}
	}
	return c.request
}

func (c *verifCtr) GetPendingAdjustment() *api.ContainerAdjustment {
	c.cch.w.access(true)
	if c.request == nil {
		return nil
	}
	req, _ := c.request.(*api.ContainerAdjustment)
	c.request = nil
	return req
}

func (c *verifCtr) GetPendingUpdate() *api.ContainerUpdate {
	c.cch.w.access(true)
	if c.request == nil {
		return nil
	}
	req, _ := c.request.(*api.ContainerUpdate)
	c.request = nil
	return req
}

func (c *verifCtr) markPending() {
	if !verifHas(c.pend, verifNRI) {
		c.pend = append(c.pend, verifNRI)
	}
	if id := c.ctr.GetId(); !verifHas(c.cch.pending, id) {
		c.cch.pending = append(c.cch.pending, id)
	}
}

func (c *verifCtr) InsertMount(m *cache.Mount) {
	c.cch.w.access(true)
	adjust, ok := c.getPendingRequest().(*api.ContainerAdjustment)
	if !ok {
		return
	}
	adjust.AddMount(m)
	c.markPending()
}

func (c *verifCtr) GetPending() []string {
	c.cch.w.access(false)
	if c.pend == nil {
		return nil
	}
	return append([]string{}, c.pend...)
}

func (c *verifCtr) HasPending(controller string) bool {
	c.cch.w.access(false)
	return verifHas(c.pend, controller)
}

func (c *verifCtr) ClearPending(controller string) {
	c.cch.w.access(true)
	c.pend = verifDrop(c.pend, controller)
	if len(c.pend) == 0 {
		c.cch.pending = verifDrop(c.cch.pending, c.ctr.GetId())
	}
}

func (c *verifCtr) linuxCPU() *api.LinuxCPU {
	if c.ctr.Linux == nil {
		c.ctr.Linux = &api.LinuxContainer{}
	}
	if c.ctr.Linux.Resources == nil {
		c.ctr.Linux.Resources = &api.LinuxResources{}
	}
	if c.ctr.Linux.Resources.Cpu == nil {
		c.ctr.Linux.Resources.Cpu = &api.LinuxCPU{}
	}
	return c.ctr.Linux.Resources.Cpu
}

func (c *verifCtr) linuxMemory() *api.LinuxMemory {
	c.linuxCPU()
	if c.ctr.Linux.Resources.Memory == nil {
		c.ctr.Linux.Resources.Memory = &api.LinuxMemory{}
	}
	return c.ctr.Linux.Resources.Memory
}

func (c *verifCtr) SetCPUShares(v int64) {
	c.cch.w.access(true)
	switch req := c.getPendingRequest().(type) {
	case *api.ContainerAdjustment:
		req.SetLinuxCPUShares(uint64(v))
	case *api.ContainerUpdate:
		req.SetLinuxCPUShares(uint64(v))
	}
	c.markPending()
	c.linuxCPU().Shares = api.UInt64(uint64(v))
}

func (c *verifCtr) SetCPUQuota(v int64) {
	c.cch.w.access(true)
	c.getPendingRequest()
	c.markPending()
	c.linuxCPU().Quota = api.Int64(v)
}

func (c *verifCtr) SetCPUPeriod(v int64) {
	c.cch.w.access(true)
	c.getPendingRequest()
	c.markPending()
	c.linuxCPU().Period = api.UInt64(uint64(v))
}

func (c *verifCtr) SetCpusetCpus(v string) {
	c.cch.w.access(true)
	switch req := c.getPendingRequest().(type) {
	case *api.ContainerAdjustment:
		req.SetLinuxCPUSetCPUs(v)
	case *api.ContainerUpdate:
		req.SetLinuxCPUSetCPUs(v)
	}
	c.markPending()
	c.linuxCPU().Cpus = v
}

func (c *verifCtr) SetCpusetMems(v string) {
	c.cch.w.access(true)
	c.getPendingRequest()
	c.markPending()
	c.linuxCPU().Mems = v
}

func (c *verifCtr) SetMemoryLimit(v int64) {
	c.cch.w.access(true)
	c.getPendingRequest()
	c.markPending()
	c.linuxMemory().Limit = api.Int64(v)
}

func (c *verifCtr) SetMemorySwap(v int64) {
	c.cch.w.access(true)
	c.getPendingRequest()
	c.markPending()
	c.linuxMemory().Swap = api.Int64(v)
}

func (c *verifCtr) res() *api.LinuxResources { return c.ctr.GetLinux().GetResources() }

func (c *verifCtr) GetCPUShares() int64 {
	c.cch.w.access(false)
	return int64(c.res().GetCpu().GetShares().GetValue())
}
func (c *verifCtr) GetCPUQuota() int64 {
	c.cch.w.access(false)
	return c.res().GetCpu().GetQuota().GetValue()
}
func (c *verifCtr) GetCPUPeriod() int64 {
	c.cch.w.access(false)
	return int64(c.res().GetCpu().GetPeriod().GetValue())
}
func (c *verifCtr) GetCpusetCpus() string { c.cch.w.access(false); return c.res().GetCpu().GetCpus() }
func (c *verifCtr) GetCpusetMems() string { c.cch.w.access(false); return c.res().GetCpu().GetMems() }
func (c *verifCtr) GetMemoryLimit() int64 {
	c.cch.w.access(false)
	return c.res().GetMemory().GetLimit().GetValue()
}
func (c *verifCtr) GetMemorySwap() int64 {
	c.cch.w.access(false)
	return c.res().GetMemory().GetSwap().GetValue()
}

// ---- fake policy

type verifSyncCall struct {
	add, del []cache.Container
}

type verifPolicy struct {
	policy.Policy
	w     *verifWorld
	syncs []verifSyncCall
	log   []string // "<op> <container id>"

	// configuration (C13)
	byAttr   bool          // Reconfigure decides by the configuration's own attributes
	configs  []interface{} // every configuration passed to Reconfigure
	inEffect interface{}   // the last one accepted
}

var errVerifPolicy = errors.New("policy failure")

func (p *verifPolicy) ActivePolicy() string { p.w.access(false); return "verif" }

func (p *verifPolicy) Start(interface{}) error {
	p.w.access(true)
	if p.w.fails("policy.Start") {
		return errVerifPolicy
	}
	return nil
}

// Reconfigure: with byAttr the configuration object itself says whether the
// policy rejects it (so re-applying a configuration accepted before is
// accepted again), otherwise the solver chooses. A rejecting policy may
// already have changed containers when it fails (cfg.partial). An accepted
// configuration re-pins every live container to a cpuset that names the
// configuration.
func (p *verifPolicy) Reconfigure(cfg interface{}) error {
	p.w.access(true)
	p.configs = append(p.configs, cfg)
	p.w.trace = append(p.w.trace, verifTraceEvent{kind: "reconfigure", cfg: cfg})
	if c, ok := cfg.(*verifCfg); ok && p.byAttr {
		if c.reject {
			if c.partial {
				p.repin(nil, "partial-"+c.name)
			}
			return errVerifPolicy
		}
		p.inEffect = cfg
		p.repin(nil, "cfg-"+c.name)
		return nil
	}
	if p.w.fails("policy.Reconfigure") {
		return errVerifPolicy
	}
	p.inEffect = cfg
	p.repin(nil, "2-3")
	return nil
}

func (p *verifPolicy) Sync(add, del []cache.Container) error {
	p.w.access(true)
	p.syncs = append(p.syncs, verifSyncCall{add: append([]cache.Container{}, add...), del: append([]cache.Container{}, del...)})
	if p.w.fails("policy.Sync") {
		return errVerifPolicy
	}
	for _, c := range add {
		c.SetCpusetCpus("0-1")
	}
	return nil
}

// repin: like the real policies a (re)allocation may change other running
// containers (shared pool resizing), through the cache API.
func (p *verifPolicy) repin(except cache.Container, cpus string) {
	for _, o := range p.w.cch.GetContainers() {
		if o == except {
			continue
		}
		if s := o.GetState(); s == cache.ContainerStateRunning || s == cache.ContainerStateCreated {
			o.SetCpusetCpus(cpus)
		}
	}
}

func (p *verifPolicy) AllocateResources(c cache.Container) error {
	p.w.access(true)
	p.log = append(p.log, "allocate "+c.GetID())
	if p.w.fails("policy.AllocateResources") {
		return errVerifPolicy
	}
	c.SetCpusetCpus("0-1")
	c.SetCPUShares(1024)
	p.repin(c, "2-3")
	return nil
}

func (p *verifPolicy) ReleaseResources(c cache.Container) error {
	p.w.access(true)
	p.log = append(p.log, "release "+c.GetID())
	if p.w.fails("policy.ReleaseResources") {
		return errVerifPolicy
	}
	p.repin(c, "2-3")
	return nil
}

func (p *verifPolicy) UpdateResources(c cache.Container) error {
	p.w.access(true)
	p.log = append(p.log, "update "+c.GetID())
	if p.w.fails("policy.UpdateResources") {
		return errVerifPolicy
	}
	c.SetCPUShares(512)
	return nil
}

func (p *verifPolicy) HandleEvent(e *events.Policy) (bool, error) {
	p.w.access(true)
	if p.w.fails("policy.HandleEvent") {
		return false, errVerifPolicy
	}
	return false, nil
}

func (p *verifPolicy) ExportResourceData(c cache.Container) { p.w.access(false) }

func (p *verifPolicy) GetTopologyZones() []*policy.TopologyZone {
	p.w.access(false)
	return []*policy.TopologyZone{{Name: "root", Type: "pool"}}
}

// ---- fake controllers

type verifControl struct {
	control.Control
	w       *verifWorld
	lastCfg *ctlcfg.Config // last StartStopControllers argument
}

var errVerifControl = errors.New("controller failure")

// hook: the in-tree controllers' container hooks change nothing in the
// cache (pkg/resmgr/control/cpu: all return nil); control.runhook reads the
// controller table and the container's name. Counted as a reading access.
func (c *verifControl) hook(what string, mutating bool) error {
	c.w.access(mutating)
	// the handlers only log hook errors; failing hooks are explored when the
	// unit asks for it ("ctlfail": 1)
	if verifParam("ctlfail", 0) == 1 && c.w.fails("control."+what) {
		return errVerifControl
	}
	return nil
}

func (c *verifControl) StartStopControllers(cfg *ctlcfg.Config) error {
	c.lastCfg = cfg
	return c.hook("StartStop", true)
}
func (c *verifControl) RunPreCreateHooks(cache.Container) error  { return c.hook("PreCreate", false) }
func (c *verifControl) RunPreStartHooks(cache.Container) error   { return c.hook("PreStart", false) }
func (c *verifControl) RunPostStartHooks(cache.Container) error  { return c.hook("PostStart", false) }
func (c *verifControl) RunPostUpdateHooks(cache.Container) error { return c.hook("PostUpdate", false) }
func (c *verifControl) RunPostStopHooks(cache.Container) error   { return c.hook("PostStop", false) }

// ---- fake NRI stub and configuration

type verifStub struct {
	stub.Stub
	w *verifWorld
}

func (s *verifStub) UpdateContainers(u []*api.ContainerUpdate) ([]*api.ContainerUpdate, error) {
	s.w.trace = append(s.w.trace, verifTraceEvent{kind: "push", updates: u})
	if s.w.fails("stub.UpdateContainers") {
		return nil, errors.New("stub failure")
	}
	return nil, nil
}

// verifCfg is a configuration; its policy part is the object itself, so the
// fake policy can see the attributes.
type verifCfg struct {
	cfgapi.ResmgrConfig
	common  cfgapi.CommonConfig
	name    string
	reject  bool // the policy rejects this configuration
	partial bool // ... after having changed containers already
}

func (c *verifCfg) CommonConfig() *cfgapi.CommonConfig { return &c.common }
func (c *verifCfg) PolicyConfig() interface{}          { return c }

// verifTraceEvent: policy reconfigurations and pushes to the runtime, in order.
type verifTraceEvent struct {
	kind    string // "reconfigure" or "push"
	cfg     interface{}
	updates []*api.ContainerUpdate
}

// verifIn reports whether container c is an element of list l.
func verifIn(l []cache.Container, c cache.Container) bool {
	for _, x := range l {
		if x == c {
			return true
		}
	}
	return false
}

func verifCount(l []cache.Container, c cache.Container) int {
	n := 0
	for _, x := range l {
		if x == c {
			n++
		}
	}
	return n
}
