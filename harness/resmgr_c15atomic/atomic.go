//go:build verif

package resmgr

// C15 atomicity: one request = one critical section. The unit rewrites (in
// the overlay only, from /repo's current source) the embedded sync.RWMutex of
// the resmgr struct to verifRWMutex, which counts write acquisitions. Every
// access a handler makes to cache, policy or controllers must happen in the
// same critical section: a handler that releases the lock and takes it again
// in the middle lets another request run on half-applied state.

import "sync"

type verifRWMutex struct {
	sync.RWMutex
	sections int
}

func (m *verifRWMutex) Lock() {
	m.RWMutex.Lock()
	m.sections++
}

// VerifC15Atomic: as VerifC15LockDiscipline, asserting that all accesses of
// one request happen in one critical section of the resmgr lock.
func VerifC15Atomic() {
	verifSectionOf = func(m *resmgr) int { return m.sections }
	defer func() { verifSectionOf = nil }()
	w := verifNewWorld()
	w.withLinux = true
	w.mayFail = true
	w.seedInitial(2)
	names := append(append([]string{}, verifHandlerNames...), "reconfigure", "processEvent")
	var r verifReq
	if k := verifChoice("which", 2+1); k < 2 {
		r.name = names[len(verifHandlerNames)+k]
	} else {
		r = w.chooseReq()
	}
	w.lockCheck = true
	verifCover("C15.atomic.call." + r.name)
	rpl := w.invoke("", r)
	w.lockCheck = false
	if !rpl.panicked {
		verifCover("C15.atomic.returned." + r.name)
	}
	verifAssert("C15.one-critical-section."+r.name, w.sectionChanges == 0)
}
