//go:build verif

package cache

// C10 (round trip): the cache loaded from the state directory equals the
// cache at its last successful save, over several generations.
//
// Real code: Save, Snapshot, Load, Restore, SetPolicyEntry, GetPolicyEntry,
// marshalEntry/unmarshalEntry/cacheEntry, SetActivePolicy. json.Marshal /
// json.Unmarshal of the snapshot and of string entries run on the round-trip
// model of fsmodel.go under the engine (natively the real encoding/json on a
// temporary directory).

var verifC10Keys = []string{"a", "b"}

// view of what a cache instance serves
type verifC10View struct {
	policy  string
	nextID  uint64
	pods    []bool
	entries []string // "" = absent
}

func verifC10Observe(cch *cache) verifC10View {
	v := verifC10View{policy: cch.PolicyName, nextID: cch.NextID}
	for _, id := range []string{"p0", "p1"} {
		_, ok := cch.LookupPod(id)
		v.pods = append(v.pods, ok)
	}
	for _, k := range verifC10Keys {
		var s string
		if cch.GetPolicyEntry(k, &s) {
			v.entries = append(v.entries, "="+s)
		} else {
			v.entries = append(v.entries, "")
		}
	}
	return v
}

func (v verifC10View) same(o verifC10View) bool {
	ok := v.policy == o.policy && v.nextID == o.nextID
	for i := range v.pods {
		ok = ok && v.pods[i] == o.pods[i]
	}
	for i := range v.entries {
		ok = ok && v.entries[i] == o.entries[i]
	}
	return ok
}

// VerifC10RoundTrip: generation 1 sets a solver-chosen subset of two policy
// entries, inserts up to two pods and saves; generation 2 loads, reads a
// solver-chosen subset of the entries, possibly overwrites or adds one, and
// saves (by an explicit Save or by a pod insertion); generation 3 loads:
// every generation sees exactly what the previous one served when it saved.
func VerifC10RoundTrip() {
	dir, cleanup := verifTempDir()
	defer cleanup()
	verifFS.snapshotModel = true
	verifSnapshots = nil

	g1 := verifNewCacheAt(dir)
	g1.PolicyName = "policy-1"
	set1 := verifChoice("gen1.entries", 4)
	for i, k := range verifC10Keys {
		if set1&(1<<uint(i)) != 0 {
			g1.SetPolicyEntry(k, "v1-"+k)
		}
	}
	pods1 := verifChoice("gen1.pods", 3)
	for i := 0; i < pods1; i++ {
		g1.InsertPod(verifC14Pod("p"+string(rune('0'+i))), nil)
	}
	if err := g1.Save(); err != nil {
		return
	}
	verifCover("gen1-saved")
	want1 := verifC10Observe(g1)

	g2 := verifNewCacheAt(dir)
	if err := g2.Load(); err != nil {
		verifAssert("C10.roundtrip.load-succeeds", false)
		return
	}
	// what generation 2 does before its first save: read some entries
	// (GetPolicyEntry decodes them lazily), change one
	read2 := verifChoice("gen2.reads", 4)
	for i, k := range verifC10Keys {
		if read2&(1<<uint(i)) != 0 {
			var s string
			g2.GetPolicyEntry(k, &s)
		}
	}
	change, saveBy := verifChoice("gen2.change", 3), verifChoice("gen2.save-by", 2)
	switch change {
	case 1:
		g2.SetPolicyEntry("a", "v2-a")
	case 2:
		g2.SetPolicyEntry("b", "v2-b")
	}
	var err error
	if saveBy == 0 {
		err = g2.Save()
	} else {
		g2.InsertPod(verifC14Pod("p1"), nil) // saves
	}
	if err != nil {
		return
	}
	verifCover("gen2-saved")
	if change == 0 && saveBy == 0 {
		verifAssert("C10.roundtrip.gen2-serves-what-gen1-saved", want1.same(verifC10Observe(g2)))
	}
	want2 := verifC10Observe(g2)

	g3 := verifNewCacheAt(dir)
	if err := g3.Load(); err != nil {
		verifAssert("C10.roundtrip.load-succeeds", false)
		return
	}
	verifCover("gen3-loaded")
	got3 := verifC10Observe(g3)
	verifAssert("C10.roundtrip.policy-name-and-ids", got3.policy == want2.policy && got3.nextID == want2.nextID)
	podsOK, entriesOK := true, true
	for i := range want2.pods {
		podsOK = podsOK && got3.pods[i] == want2.pods[i]
	}
	for i := range want2.entries {
		entriesOK = entriesOK && got3.entries[i] == want2.entries[i]
	}
	verifAssert("C10.roundtrip.pods", podsOK)
	verifAssert("C10.roundtrip.policy-entries", entriesOK)
}
