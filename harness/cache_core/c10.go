//go:build verif

package cache

// C10: the persisted cache survives crashes during save; unsafe cache files
// and directories are refused.
//
// Real code: cache.checkPerm, cache.mkdirAll, NewCache (its whole prefix up
// to and including Load of an absent/empty file), cache.Save, cache.Snapshot
// (up to json.Marshal). The file system is the model of fsmodel.go under the
// engine and a real temporary directory natively.
//
// Out of scope: snapshot/restore JSON equivalence (encoding/json is
// reflection-driven).

import (
	"strings"
	"io/fs"
	"os"
	"syscall"

	nri "github.com/containerd/nri/pkg/api"
	v1 "k8s.io/api/core/v1"
)

const (
	verifKindMissing = iota
	verifKindRegular
	verifKindDir
	verifKindSymlink
	verifKindLstatError // lstat fails with something else than ENOENT (ENOTDIR)
	verifKindFifo
	verifKindSocket
	verifKindCharDev
	verifKindBlockDev
	verifKindCount
)

var verifKindMode = [verifKindCount]fs.FileMode{
	verifKindRegular:  0,
	verifKindDir:      fs.ModeDir,
	verifKindSymlink:  fs.ModeSymlink,
	verifKindFifo:     fs.ModeNamedPipe,
	verifKindSocket:   fs.ModeSocket,
	verifKindCharDev:  fs.ModeDevice | fs.ModeCharDevice,
	verifKindBlockDev: fs.ModeDevice,
}

var verifKindSys = [verifKindCount]uint32{
	verifKindFifo:     syscall.S_IFIFO,
	verifKindSocket:   syscall.S_IFSOCK,
	verifKindCharDev:  syscall.S_IFCHR,
	verifKindBlockDev: syscall.S_IFBLK,
}

func verifC10Kinds() int {
	if verifParam("devices", 1) == 1 {
		return verifKindCount
	}
	return verifKindFifo
}

// verifC10PermBits: solver-chosen permission bits rwxrwxrwx plus
// setuid/setgid/sticky (everything chmod can set).
func verifC10PermBits() fs.FileMode {
	bits := fs.FileMode(verifNondetUint32("perm"))
	verifAssume(bits&^(fs.ModePerm|fs.ModeSetuid|fs.ModeSetgid|fs.ModeSticky) == 0)
	return bits
}

// verifC10Entity puts an entry of the given kind and permission bits under
// dir and returns its path.
func verifC10Entity(dir, name string, kind int, perm fs.FileMode) string {
	path := dir + "/" + name
	switch kind {
	case verifKindMissing:
	case verifKindRegular:
		verifFSPutFile(path, nil, perm)
	case verifKindDir:
		verifFSPutDir(path, perm)
	case verifKindLstatError:
		// a path below a regular file: lstat fails with ENOTDIR
		verifFSPutFile(dir+"/plain", nil, 0o600)
		path = dir + "/plain/" + name
		if verifSymbolic() {
			verifFS.lstatErr[path] = syscall.ENOTDIR
		}
	case verifKindSymlink:
		// a symbolic link to a perfectly acceptable directory
		verifFSPutDir(dir+"/link-target", 0o700)
		if verifSymbolic() {
			verifFS.put(path, fs.ModeSymlink|perm, nil)
		} else if err := os.Symlink(dir+"/link-target", path); err != nil {
			panic(err)
		}
	default:
		if verifSymbolic() {
			verifFS.put(path, verifKindMode[kind]|perm, nil)
		} else {
			if err := syscall.Mknod(path, verifKindSys[kind]|0o600, 1<<8|3); err != nil {
				panic(err)
			}
			if err := os.Chmod(path, perm); err != nil {
				panic(err)
			}
		}
	}
	return path
}

// verifC10Refused is the property's verdict: an existing entry is refused iff
// it is a symbolic link, of the wrong file type, or has any of the rejected
// permission bits (which include group/other write); an entry that cannot
// be examined is refused; an absent one is not.
func verifC10Refused(kind int, isDir bool, perm, reject fs.FileMode) bool {
	switch kind {
	case verifKindMissing:
		return false
	case verifKindRegular:
		if isDir {
			return true
		}
	case verifKindDir:
		if !isDir {
			return true
		}
	default: // symlink, unexaminable, fifo, socket, devices
		return true
	}
	return perm&fs.ModePerm&reject != 0
}

// VerifC10CheckPerm: real checkPerm (file and directory flavour) and
// mkdirAll on an entry of every kind with symbolic permission bits, for each
// of the package's permission classes.
func VerifC10CheckPerm() {
	dir, cleanup := verifTempDir()
	defer cleanup()
	cch := verifNewCacheAt(dir)

	classes := []*permissions{cacheDirPerm, cacheFilePerm, dataDirPerm, dataFilePerm}
	p := classes[verifChoice("class", len(classes))]
	verifAssert("C10.reject-includes-group-other-write", p.reject&0o022 == 0o022)

	kind := verifChoice("kind", verifC10Kinds())
	perm := verifC10PermBits()
	path := verifC10Entity(dir, "entry", kind, perm)
	modeBefore, existedBefore := verifFSMode(path)
	idBefore, _ := verifFSIdentity(path)

	switch verifChoice("fn", 3) {
	case 0, 1:
		isDir := verifChoice("isDir", 2) == 1
		refuse := verifC10Refused(kind, isDir, perm, p.reject)
		exists, err := cch.checkPerm("verif", path, isDir, p)
		if err != nil {
			verifCover("checkPerm-refuses")
		} else if exists {
			verifCover("checkPerm-accepts")
		} else {
			verifCover("checkPerm-absent")
		}
		verifAssert("C10.checkPerm-refuses-iff-unsafe", (err != nil) == refuse)
		verifAssert("C10.checkPerm-exists-flag", exists == (kind != verifKindMissing))
	case 2:
		refuse := verifC10Refused(kind, true, perm, p.reject)
		err := cch.mkdirAll("verif", path, p)
		if err != nil {
			verifCover("mkdirAll-refuses")
		} else if kind == verifKindMissing {
			verifCover("mkdirAll-creates")
		} else {
			verifCover("mkdirAll-accepts-existing")
		}
		verifAssert("C10.mkdirAll-refuses-iff-unsafe", (err != nil) == refuse)
		modeAfter, existsAfter := verifFSMode(path)
		if err == nil {
			verifAssert("C10.mkdirAll-yields-directory", existsAfter && modeAfter.IsDir())
			if kind == verifKindMissing {
				verifAssert("C10.mkdirAll-creates-without-group-other-write", modeAfter&0o022 == 0)
			}
		}
		if existedBefore {
			// an existing entry is examined, never changed or replaced
			idAfter, _ := verifFSIdentity(path)
			verifAssert("C10.mkdirAll-leaves-existing-entry-alone", existsAfter && modeAfter == modeBefore && idAfter == idBefore)
		}
	}
}

// VerifC10NewCacheRefuses: the real NewCache on a state directory whose
// cache directory, cache file or container directory is an entry of every
// kind with symbolic permission bits.
func VerifC10NewCacheRefuses() {
	dir, cleanup := verifTempDir()
	defer cleanup()

	which := verifChoice("which", 3) // 0: cache directory, 1: cache file, 2: container data directory
	kind := verifChoice("kind", verifC10Kinds())
	perm := verifC10PermBits()

	cacheDir := dir + "/state"
	switch {
	case kind == verifKindLstatError:
		// state "directory" is a regular file: everything below it is unexaminable
		verifAssume(which == 1)
		verifC10Entity(dir, "cache", kind, perm)
		cacheDir = dir + "/plain"
	case which == 0:
		cacheDir = verifC10Entity(dir, "state", kind, perm)
	case which == 1:
		verifFSPutDir(cacheDir, 0o700)
		verifC10Entity(cacheDir, "cache", kind, perm)
	case which == 2:
		verifFSPutDir(cacheDir, 0o700)
		verifC10Entity(cacheDir, "containers", kind, perm)
	}
	refuse := verifC10Refused(kind, which != 1, perm, 0o022)

	c, err := NewCache(Options{CacheDir: cacheDir})
	if err != nil {
		verifCover("NewCache-refuses")
	} else {
		verifCover("NewCache-accepts")
	}
	verifAssert("C10.NewCache-refuses-iff-unsafe", (err != nil) == refuse)
	verifAssert("C10.NewCache-no-cache-on-refusal", (c == nil) == (err != nil))
	if err == nil {
		m1, ok1 := verifFSMode(cacheDir)
		m2, ok2 := verifFSMode(cacheDir + "/containers")
		verifAssert("C10.NewCache-directories-exist", ok1 && m1.IsDir() && ok2 && m2.IsDir())
	}
}

func verifBytesEqual(a, b []byte) bool { return string(a) == string(b) }

const (
	verifFailNone    = iota
	verifFailOpen    // WriteFile cannot open/create the temporary file
	verifFailWrite   // WriteFile stops after a solver-chosen prefix (ENOSPC, EIO)
	verifFailRename  // Rename fails
	verifFailMarshal // json.Marshal fails
	verifFailCount
)

// VerifC10SaveAtomic: the real Save on a cache with one pod and one
// container, starting from a disk that holds a previous snapshot (or none)
// and possibly a leftover temporary file of an interrupted earlier save, with a
// solver-chosen failure. The invariant is asserted after every atomic step
// of the file-system model (= at every instant a crash could expose) and
// after Save returns.
func VerifC10SaveAtomic() {
	dir, cleanup := verifTempDir()
	defer cleanup()
	cch := verifNewCacheAt(dir)
	cch.verifAddPod("pod0", v1.PodQOSBurstable)
	cch.verifAddContainer("A", "pod0", ContainerStateRunning, &nri.LinuxResources{
		Cpu: &nri.LinuxCPU{Shares: nri.UInt64(uint64(1024)), Cpus: "0-3", Mems: "0"},
	})
	file, tmp := cch.filePath, cch.filePath+".saving"

	old := []byte(`{"OLD-SNAPSHOT"}`)
	hasOld := verifChoice("hasOld", 2) == 1
	if hasOld {
		verifFSPutFile(file, old, 0o644)
	}
	fail := verifChoice("fail", verifFailCount)
	if fail >= verifFailWrite {
		// not injectable on a real file system
		verifAssume(verifSymbolic())
	}
	if fail == verifFailOpen {
		// natively: a directory is in the way of the temporary file
		if verifSymbolic() {
			verifFS.failOpen = true
		} else {
			verifFSPutDir(tmp, 0o700)
		}
	} else if st := verifChoice("staleTmp", 3); st == 1 {
		// left by an interrupted save, shorter than the next snapshot
		verifFSPutFile(tmp, []byte(`{"INTERRUPTED`), 0o644)
	} else if st == 2 {
		// left by an interrupted save of a larger cache: longer than the next snapshot
		verifFSPutFile(tmp, []byte(strings.Repeat("yyyyyyyy", 2048)), 0o644)
	}

	// what a successful save must leave on disk
	newData, err := cch.Snapshot()
	if err != nil {
		panic(err)
	}
	idBefore, _ := verifFSIdentity(file)

	invariant := func(what string) {
		data, isFile := verifFSContent(file)
		_, exists := verifFSMode(file)
		if hasOld {
			verifAssert("C10.cache-file-is-old-or-new-snapshot", isFile && (verifBytesEqual(data, old) || verifBytesEqual(data, newData)))
		} else {
			verifAssert("C10.cache-file-is-absent-or-new-snapshot", !exists || (isFile && verifBytesEqual(data, newData)))
		}
	}
	if verifSymbolic() {
		verifFS.step = invariant
		verifFS.failWrite = fail == verifFailWrite
		verifFS.failRename = fail == verifFailRename
		verifFS.failMarshal = fail == verifFailMarshal
	}

	err = cch.Save()

	invariant("Save returned")
	verifAssert("C10.save-fails-iff-a-step-failed", (err != nil) == (fail != verifFailNone))
	data, isFile := verifFSContent(file)
	if err == nil {
		if hasOld {
			verifCover("save-replaces-old-snapshot")
		} else {
			verifCover("save-writes-first-snapshot")
		}
		verifAssert("C10.successful-save-leaves-new-snapshot", isFile && verifBytesEqual(data, newData))
		_, tmpExists := verifFSMode(tmp)
		verifAssert("C10.successful-save-leaves-no-temporary-file", !tmpExists)
		// the next start accepts what this save left (real checkPerm)
		exists, perr := cch.checkPerm("cache", file, false, cacheFilePerm)
		verifAssert("C10.saved-cache-file-passes-permission-check", exists && perr == nil)
		if hasOld {
			// replaced by rename, never rewritten in place
			idAfter, _ := verifFSIdentity(file)
			verifAssert("C10.cache-file-replaced-not-rewritten", idAfter != idBefore)
		}
	} else {
		if fail == verifFailOpen {
			verifCover("save-fails-opening-temporary-file")
		}
		_, exists := verifFSMode(file)
		if hasOld {
			idAfter, _ := verifFSIdentity(file)
			verifAssert("C10.failed-save-leaves-old-snapshot-untouched", isFile && verifBytesEqual(data, old) && idAfter == idBefore)
		} else {
			verifAssert("C10.failed-save-leaves-old-snapshot-untouched", !exists)
		}
		// the fault goes away; nothing changed in the cache meanwhile: the next
		// save must write the snapshot the failed one did not
		if verifSymbolic() {
			verifFS.failOpen, verifFS.failWrite, verifFS.failRename, verifFS.failMarshal = false, false, false, false
		} else if fail == verifFailOpen {
			if err := os.Remove(tmp); err != nil {
				panic(err)
			}
		}
		err2 := cch.Save()
		verifCover("save-retried-after-failure")
		// faults that only the file-system model can inject (write, rename,
		// marshal) have no native replay: they are judged under their own label
		sfx := ""
		if fail >= verifFailWrite {
			sfx = ".fault-only-in-model"
		}
		verifAssert("C10.save-after-failed-save-succeeds"+sfx, err2 == nil)
		data2, isFile2 := verifFSContent(file)
		verifAssert("C10.save-after-failed-save-leaves-new-snapshot"+sfx, isFile2 && verifBytesEqual(data2, newData))
	}
	if verifSymbolic() {
		for _, w := range verifFS.writes {
			verifAssert("C10.only-temporary-file-written-directly", w == tmp)
		}
	}
}
