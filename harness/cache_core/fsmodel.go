//go:build verif

package cache

// File-system model behind the cache's os.* calls.
//
// Under the engine os.Lstat/Stat/MkdirAll/WriteFile/ReadFile/Rename/RemoveAll
// and json.Marshal are redirected to the verifFS*/verifJSONMarshal functions
// below (engine/ext_cache.go). Natively the real functions run on a real
// temporary directory; the helpers verifFSPut*/verifFSContent/... set up and
// observe either world the same way.
//
// Model: a map path -> node (mode, content, identity). WriteFile =
// open/create (may fail) + truncate + write (may stop after any prefix and
// fail); Rename is atomic (POSIX rename(2)); nothing else is ever torn. After
// every atomic step the hook verifFSStep is called: a crash can leave the
// disk in exactly the states the hook sees.

import (
	"io/fs"
	"os"
	"syscall"
	"time"
)

type verifNode struct {
	mode fs.FileMode
	data []byte
	id   uint64
}

type verifFSState struct {
	nodes  map[string]*verifNode
	nextID uint64
	writes []string // paths opened for writing by WriteFile
	// failure injection (set by the harness)
	failOpen    bool // WriteFile fails before creating/truncating anything
	failWrite   bool // WriteFile stops after a solver-chosen prefix and fails
	failRename  bool // Rename fails without effect
	failMarshal bool // json.Marshal fails
	lstatErr    map[string]syscall.Errno
	step        func(what string) // called after every atomic change
	newData     []byte            // what json.Marshal returns
	snapshotModel bool            // json.Marshal/Unmarshal round-trip model for snapshots and strings
}

var verifFS *verifFSState

func verifFSReset() {
	verifFS = &verifFSState{nodes: map[string]*verifNode{}, nextID: 100, lstatErr: map[string]syscall.Errno{},
		newData: []byte(`{"NEW-SNAPSHOT-OF-THE-CACHE-LONGER-THAN-A-SHORT-STALE-TEMP-FILE"}`)}
	if verifSymbolic() {
		// package os is not initialised by the engine
		os.ErrNotExist = fs.ErrNotExist
	}
}

func (s *verifFSState) put(path string, mode fs.FileMode, data []byte) *verifNode {
	s.nextID++
	n := &verifNode{mode: mode, data: data, id: s.nextID}
	s.nodes[path] = n
	return n
}

func (s *verifFSState) stepped(what string) {
	if s.step != nil {
		s.step(what)
	}
}

type verifFileInfo struct {
	name string
	node *verifNode
}

func (fi *verifFileInfo) Name() string       { return fi.name }
func (fi *verifFileInfo) Size() int64        { return int64(len(fi.node.data)) }
func (fi *verifFileInfo) Mode() fs.FileMode  { return fi.node.mode }
func (fi *verifFileInfo) ModTime() time.Time { return time.Time{} }
func (fi *verifFileInfo) IsDir() bool        { return fi.node.mode.IsDir() }
func (fi *verifFileInfo) Sys() any           { return nil }

// ---- models (called by the engine in place of the os functions)

func verifFSLstat(name string) (os.FileInfo, error) {
	if e, ok := verifFS.lstatErr[name]; ok {
		return nil, &os.PathError{Op: "lstat", Path: name, Err: e}
	}
	n, ok := verifFS.nodes[name]
	if !ok {
		return nil, &os.PathError{Op: "lstat", Path: name, Err: syscall.ENOENT}
	}
	return &verifFileInfo{name: name, node: n}, nil
}

func verifFSStat(name string) (os.FileInfo, error) { return verifFSLstat(name) }

func verifFSMkdirAll(path string, perm fs.FileMode) error {
	if n, ok := verifFS.nodes[path]; ok {
		if n.mode.IsDir() {
			return nil
		}
		return &os.PathError{Op: "mkdir", Path: path, Err: syscall.ENOTDIR}
	}
	verifFS.put(path, fs.ModeDir|perm.Perm(), nil)
	verifFS.stepped("mkdir " + path)
	return nil
}

func verifFSWriteFile(name string, data []byte, perm fs.FileMode) error {
	s := verifFS
	if s.failOpen {
		return &os.PathError{Op: "open", Path: name, Err: syscall.EISDIR}
	}
	s.writes = append(s.writes, name)
	n, ok := s.nodes[name]
	if !ok {
		n = s.put(name, perm.Perm(), nil)
	}
	n.data = nil // O_TRUNC
	s.stepped("truncate " + name)
	if s.failWrite {
		k := verifChoice("fs.partial", len(data)+1)
		n.data = append([]byte(nil), data[:k]...)
		s.stepped("partial write " + name)
		return &os.PathError{Op: "write", Path: name, Err: syscall.ENOSPC}
	}
	n.data = append([]byte(nil), data...)
	s.stepped("write " + name)
	return nil
}

func verifFSReadFile(name string) ([]byte, error) {
	n, ok := verifFS.nodes[name]
	if !ok {
		return nil, &os.PathError{Op: "open", Path: name, Err: syscall.ENOENT}
	}
	if n.mode.IsDir() {
		return nil, &os.PathError{Op: "read", Path: name, Err: syscall.EISDIR}
	}
	return append([]byte(nil), n.data...), nil
}

func verifFSRename(oldpath, newpath string) error {
	s := verifFS
	n, ok := s.nodes[oldpath]
	if !ok {
		return &os.LinkError{Op: "rename", Old: oldpath, New: newpath, Err: syscall.ENOENT}
	}
	if s.failRename {
		return &os.LinkError{Op: "rename", Old: oldpath, New: newpath, Err: syscall.EIO}
	}
	s.nodes[newpath] = n
	delete(s.nodes, oldpath)
	s.stepped("rename " + oldpath + " -> " + newpath)
	return nil
}

func verifFSRemoveAll(path string) error {
	var gone []string
	for p := range verifFS.nodes {
		if p == path || (len(p) > len(path) && p[:len(path)] == path && p[len(path)] == '/') {
			gone = append(gone, p)
		}
	}
	for _, p := range gone {
		delete(verifFS.nodes, p)
	}
	return nil
}

func verifJSONMarshal(v any) ([]byte, error) {
	if verifFS.failMarshal {
		return nil, &os.PathError{Op: "marshal", Path: "", Err: syscall.EINVAL}
	}
	if verifFS.snapshotModel {
		// round-trip model: a snapshot is remembered and named by a token, a
		// string is quoted; Unmarshal below inverts both
		switch v := v.(type) {
		case snapshot:
			cp := v
			cp.Pods, cp.Containers, cp.PolicyJSON = map[string]*pod{}, map[string]*container{}, map[string]string{}
			for k, p := range v.Pods {
				cp.Pods[k] = p
			}
			for k, c := range v.Containers {
				cp.Containers[k] = c
			}
			for k, e := range v.PolicyJSON {
				cp.PolicyJSON[k] = e
			}
			verifSnapshots = append(verifSnapshots, cp)
			return []byte("SNAPSHOT:" + string(rune('0'+len(verifSnapshots)-1))), nil
		case string:
			return []byte("\"" + v + "\""), nil
		}
	}
	return append([]byte(nil), verifFS.newData...), nil
}

var verifSnapshots []snapshot

// verifJSONUnmarshal inverts the round-trip model of verifJSONMarshal.
func verifJSONUnmarshal(data []byte, v any) error {
	bad := &os.PathError{Op: "unmarshal", Path: "", Err: syscall.EINVAL}
	switch v := v.(type) {
	case *snapshot:
		const tag = "SNAPSHOT:"
		if len(data) != len(tag)+1 || string(data[:len(tag)]) != tag {
			return bad
		}
		n := int(data[len(tag)] - '0')
		if n < 0 || n >= len(verifSnapshots) {
			return bad
		}
		src := verifSnapshots[n]
		v.Version, v.NextID, v.PolicyName = src.Version, src.NextID, src.PolicyName
		for k, p := range src.Pods {
			v.Pods[k] = p
		}
		for k, c := range src.Containers {
			v.Containers[k] = c
		}
		for k, e := range src.PolicyJSON {
			v.PolicyJSON[k] = e
		}
		return nil
	case *string:
		if len(data) < 2 || data[0] != '"' || data[len(data)-1] != '"' {
			return bad
		}
		*v = string(data[1 : len(data)-1])
		return nil
	}
	return bad
}

// ---- set-up and observation, same in both worlds

// verifFSPutFile creates a regular file with the given content and mode.
func verifFSPutFile(path string, data []byte, perm fs.FileMode) {
	if verifSymbolic() {
		verifFS.put(path, perm, data)
		return
	}
	if err := os.WriteFile(path, data, 0o600); err != nil {
		panic(err)
	}
	if err := os.Chmod(path, perm); err != nil {
		panic(err)
	}
}

func verifFSPutDir(path string, perm fs.FileMode) {
	if verifSymbolic() {
		verifFS.put(path, fs.ModeDir|perm, nil)
		return
	}
	if err := os.Mkdir(path, 0o700); err != nil {
		panic(err)
	}
	if err := os.Chmod(path, perm); err != nil {
		panic(err)
	}
}

// verifFSContent returns the content of the regular file at path.
func verifFSContent(path string) (data []byte, ok bool) {
	if verifSymbolic() {
		n, ok := verifFS.nodes[path]
		if !ok || n.mode&fs.ModeType != 0 {
			return nil, false
		}
		return n.data, true
	}
	fi, err := os.Lstat(path)
	if err != nil || !fi.Mode().IsRegular() {
		return nil, false
	}
	data, err = os.ReadFile(path)
	return data, err == nil
}

// verifFSMode returns the mode of the entry at path.
func verifFSMode(path string) (fs.FileMode, bool) {
	if verifSymbolic() {
		n, ok := verifFS.nodes[path]
		if !ok {
			return 0, false
		}
		return n.mode, true
	}
	fi, err := os.Lstat(path)
	if err != nil {
		return 0, false
	}
	return fi.Mode(), true
}

// verifFSIdentity returns the identity (inode) of the entry at path.
func verifFSIdentity(path string) (uint64, bool) {
	if verifSymbolic() {
		n, ok := verifFS.nodes[path]
		if !ok {
			return 0, false
		}
		return n.id, true
	}
	fi, err := os.Lstat(path)
	if err != nil {
		return 0, false
	}
	st, ok := fi.Sys().(*syscall.Stat_t)
	if !ok {
		return 0, false
	}
	return st.Ino, true
}

// ---- handle-based file API (os.OpenFile / (*os.File).Write / Sync / Close):
// the engine maps an *os.File to a model handle.

type verifOpenFile struct {
	node *verifNode
	name string
	off  int
}

var verifOpenFiles []*verifOpenFile

func verifFSOpenFile(name string, flag int, perm fs.FileMode) (int, error) {
	s := verifFS
	if s.failOpen {
		return -1, &os.PathError{Op: "open", Path: name, Err: syscall.EISDIR}
	}
	n, ok := s.nodes[name]
	if !ok {
		if flag&os.O_CREATE == 0 {
			return -1, &os.PathError{Op: "open", Path: name, Err: syscall.ENOENT}
		}
		n = s.put(name, perm.Perm(), nil)
		s.stepped("create " + name)
	} else if n.mode.IsDir() {
		return -1, &os.PathError{Op: "open", Path: name, Err: syscall.EISDIR}
	}
	if flag&(os.O_WRONLY|os.O_RDWR) != 0 {
		s.writes = append(s.writes, name)
	}
	if flag&os.O_TRUNC != 0 {
		n.data = nil
		s.stepped("truncate " + name)
	}
	f := &verifOpenFile{node: n, name: name}
	if flag&os.O_APPEND != 0 {
		f.off = len(n.data)
	}
	verifOpenFiles = append(verifOpenFiles, f)
	return len(verifOpenFiles) - 1, nil
}

func verifFSFileWrite(h int, data []byte) (int, error) {
	s, f := verifFS, verifOpenFiles[h]
	k := len(data)
	if s.failWrite {
		k = verifChoice("fs.partial", len(data)+1)
	}
	prev := f.node.data
	head := prev
	if f.off < len(prev) {
		head = prev[:f.off]
	}
	var tail []byte
	if f.off+k < len(prev) {
		tail = prev[f.off+k:] // bytes of the old content beyond what is overwritten survive
	}
	buf := append([]byte(nil), head...)
	buf = append(buf, data[:k]...)
	buf = append(buf, tail...)
	f.node.data = buf
	f.off += k
	s.stepped("write " + f.name)
	if s.failWrite {
		return k, &os.PathError{Op: "write", Path: f.name, Err: syscall.ENOSPC}
	}
	return k, nil
}

func verifFSFileSync(h int) error  { return nil }
func verifFSFileClose(h int) error { return nil }
