//go:build verif

package cache

// C14 (cache part): no request sequence can crash the real cache.
//
// Real code: cache.InsertPod/createPod, InsertContainer/createContainer
// (generateTopologyHints on containers without mounts/devices, so no sysfs),
// DeletePod, DeleteContainer, LookupPod, LookupContainer, RefreshPods,
// RefreshContainers, Save/Snapshot, mkdirAll/checkPerm, and the container
// methods the resmgr UpdateContainer handler calls: SetResourceUpdates
// (mergeNRIResources, estimateResourceRequirements), GetResourceRequirements,
// GetResourceUpdates, the seven Get*().
//
// The file system is the model of fsmodel.go (natively a temporary
// directory); `go` in createPod runs inline under the engine.
//
// A panic inside an operation is caught by the harness and reported as a
// failed assertion C14.cache.no-panic.<operation>[.<circumstance>] (in the
// plugin it would kill the process: the ttrpc server does not recover). The
// circumstance suffix separates the two crashes known on the current tree
// from everything else.

import (
	nri "github.com/containerd/nri/pkg/api"
)

// verifC14Try runs f and reports whether it panicked.
func verifC14Try(f func()) (panicked bool) {
	defer func() {
		if r := recover(); r != nil {
			if _, ok := r.(verifStop); ok {
				panic(r)
			}
			panicked = true
		}
	}()
	f()
	return false
}

// resource shapes of an NRI container message
const (
	verifShapeNoLinux     = iota // Ctr.Linux == nil
	verifShapeFull               // Linux.Resources with Cpu and Memory
	verifShapeNoResources        // Linux present, Linux.Resources == nil
	verifShapeEmpty              // Linux.Resources present, Cpu == nil, Memory == nil
	verifShapeCount
)

func verifC14Resources(shape int) *nri.LinuxResources {
	switch shape {
	case verifShapeFull:
		return &nri.LinuxResources{
			Cpu:    &nri.LinuxCPU{Shares: nri.UInt64(uint64(512)), Quota: nri.Int64(int64(50000)), Period: nri.UInt64(uint64(100000)), Cpus: "0-1", Mems: "0"},
			Memory: &nri.LinuxMemory{Limit: nri.Int64(int64(1 << 28)), Swap: nri.Int64(int64(1 << 28))},
		}
	case verifShapeEmpty:
		return &nri.LinuxResources{}
	}
	return nil
}

func verifC14Container(id, podID string, shape int) *nri.Container {
	ctr := &nri.Container{Id: id, PodSandboxId: podID, Name: "ctr", State: nri.ContainerState_CONTAINER_RUNNING}
	if shape != verifShapeNoLinux {
		ctr.Linux = &nri.LinuxContainer{Resources: verifC14Resources(shape)}
	}
	return ctr
}

func verifC14Pod(id string) *nri.PodSandbox {
	return &nri.PodSandbox{Id: id, Name: "pod-" + id, Uid: "uid-" + id, Namespace: "default",
		Linux: &nri.LinuxPodSandbox{CgroupParent: "/kubepods/burstable/pod" + id}}
}

// update shapes of UpdateContainer's *LinuxResources
const (
	verifUpdNil = iota
	verifUpdFull
	verifUpdEmpty   // &LinuxResources{}
	verifUpdCPUOnly // Cpu present, Memory nil
	verifUpdCount
)

func verifC14UpdateRes(shape int) *nri.LinuxResources {
	switch shape {
	case verifUpdFull:
		return &nri.LinuxResources{
			Cpu:    &nri.LinuxCPU{Shares: nri.UInt64(uint64(1024)), Quota: nri.Int64(int64(100000)), Period: nri.UInt64(uint64(100000))},
			Memory: &nri.LinuxMemory{Limit: nri.Int64(int64(1 << 29))},
		}
	case verifUpdEmpty:
		return &nri.LinuxResources{}
	case verifUpdCPUOnly:
		return &nri.LinuxResources{Cpu: &nri.LinuxCPU{Shares: nri.UInt64(uint64(2048))}}
	}
	return nil
}

// verifC14World: the cache and a reference model of what it must contain.
type verifC14World struct {
	cch   *cache
	pods  map[string]bool
	ctrs  map[string]string // container id -> pod id
	shape map[string]int    // container id -> resource shape it was inserted with
}

var verifC14PodIDs = []string{"p0", "p1"}
var verifC14CtrIDs = []string{"c0", "c1"}

func (w *verifC14World) insertPod(id string) {
	if verifC14Try(func() { w.cch.InsertPod(verifC14Pod(id), nil) }) {
		verifAssert("C14.cache.no-panic.InsertPod", false)
	}
	w.pods[id] = true
}

func (w *verifC14World) insertContainer(id, podID string, shape int) {
	var (
		c   Container
		err error
	)
	panicked := verifC14Try(func() {
		c, err = w.cch.InsertContainer(verifC14Container(id, podID, shape), WithContainerState(ContainerStateCreating))
	})
	if !w.pods[podID] {
		verifCover("InsertContainer-for-unknown-pod")
		verifAssert("C14.cache.no-panic.InsertContainer.unknown-pod", !panicked)
		verifAssert("C14.cache.InsertContainer.unknown-pod-is-refused", err != nil && c == nil)
		return
	}
	verifAssert("C14.cache.no-panic.InsertContainer", !panicked)
	verifAssert("C14.cache.InsertContainer.succeeds", err == nil && c != nil)
	w.ctrs[id], w.shape[id] = podID, shape
}

func (w *verifC14World) update(id string, upd int) {
	c, ok := w.cch.LookupContainer(id)
	if !ok {
		return // the handler returns when the container is unknown
	}
	u := verifC14UpdateRes(upd)
	panicked := verifC14Try(func() {
		c.SetResourceUpdates(u)
		c.GetResourceRequirements()
		c.GetResourceUpdates()
		c.GetCPUShares()
		c.GetCPUQuota()
		c.GetCPUPeriod()
		c.GetCpusetCpus()
		c.GetCpusetMems()
		c.GetMemoryLimit()
		c.GetMemorySwap()
	})
	shape := w.shape[id]
	switch {
	case upd == verifUpdNil:
		verifCover("UpdateContainer-with-nil-resources")
		verifAssert("C14.cache.no-panic.SetResourceUpdates.nil-update", !panicked)
	case shape == verifShapeNoLinux || shape == verifShapeNoResources:
		verifCover("UpdateContainer-of-container-without-resources")
		verifAssert("C14.cache.no-panic.SetResourceUpdates.no-original-resources", !panicked)
	default:
		verifCover("UpdateContainer")
		verifAssert("C14.cache.no-panic.SetResourceUpdates", !panicked)
	}
}

func (w *verifC14World) refreshPods(mask int) {
	var list []*nri.PodSandbox
	listed := map[string]bool{}
	for k, id := range verifC14PodIDs {
		if mask&(1<<uint(k)) != 0 {
			list = append(list, verifC14Pod(id))
			listed[id] = true
		}
	}
	if verifC14Try(func() { w.cch.RefreshPods(list, nil) }) {
		verifAssert("C14.cache.no-panic.RefreshPods", false)
	}
	w.pods = listed
	for id, podID := range w.ctrs {
		if !listed[podID] {
			delete(w.ctrs, id)
		}
	}
}

func (w *verifC14World) refreshContainers(mask int, podOfC1 string) {
	var list []*nri.Container
	listed := map[string]string{}
	for k, id := range verifC14CtrIDs {
		if mask&(1<<uint(k)) != 0 {
			podID := "p0"
			if k == 1 {
				podID = podOfC1
			}
			list = append(list, verifC14Container(id, podID, verifShapeFull))
			listed[id] = podID
		}
	}
	unknownPod := false
	for id, podID := range listed {
		if _, cached := w.ctrs[id]; !cached && !w.pods[podID] {
			unknownPod = true
		}
	}
	panicked := verifC14Try(func() { w.cch.RefreshContainers(list) })
	if unknownPod {
		verifCover("RefreshContainers-lists-container-of-unknown-pod")
		verifAssert("C14.cache.no-panic.RefreshContainers.unknown-pod", !panicked)
		if panicked {
			return
		}
	} else {
		verifAssert("C14.cache.no-panic.RefreshContainers", !panicked)
	}
	for id := range w.ctrs {
		if _, ok := listed[id]; !ok {
			delete(w.ctrs, id)
		}
	}
	for id, podID := range listed {
		if _, cached := w.ctrs[id]; !cached && w.pods[podID] {
			w.ctrs[id], w.shape[id] = podID, verifShapeFull
		}
	}
}

// check compares the cache with the reference model through the lookup API.
func (w *verifC14World) check() {
	// what every handler does when it collects its reply (getPendingUpdates):
	// walk the containers with pending changes
	if verifC14Try(func() {
		for _, c := range w.cch.GetPendingContainers() {
			_, _ = c.GetID(), c.GetState()
		}
	}) {
		verifAssert("C14.cache.no-panic.GetPendingContainers", false)
	}
	for _, id := range append([]string{"pX", "pz"}, verifC14PodIDs...) {
		var ok bool
		if verifC14Try(func() { _, ok = w.cch.LookupPod(id) }) {
			verifAssert("C14.cache.no-panic.LookupPod", false)
		}
		verifAssert("C14.cache.pods-as-expected", ok == w.pods[id])
	}
	for _, id := range append([]string{"cz"}, verifC14CtrIDs...) {
		var ok bool
		var c Container
		if verifC14Try(func() { c, ok = w.cch.LookupContainer(id) }) {
			verifAssert("C14.cache.no-panic.LookupContainer", false)
		}
		_, want := w.ctrs[id]
		verifAssert("C14.cache.containers-as-expected", ok == want)
		if ok {
			verifAssert("C14.cache.containers-as-expected", c.GetPodID() == w.ctrs[id])
		}
	}
}

const (
	verifC14InsertPod = iota
	verifC14InsertContainer
	verifC14DeletePod
	verifC14DeleteContainer
	verifC14Update
	verifC14RefreshPods
	verifC14RefreshContainers
	verifC14MarkPending
	verifC14Ops
)

// VerifC14CacheOps: from an empty cache, a cache with pod p0, or with p0 and
// container c0 (any resource shape), a solver-chosen sequence of `steps`
// operations with solver-chosen arguments; after every operation the cache
// content is compared with a reference model; finally a valid InsertPod +
// InsertContainer of fresh ids must succeed.
func VerifC14CacheOps() {
	dir, cleanup := verifTempDir()
	defer cleanup()
	shapes := verifParam("shapes", verifShapeCount)
	updShapes := verifUpdCount
	if shapes < verifShapeCount {
		updShapes = 2
	}
	w := &verifC14World{cch: verifNewCacheAt(dir), pods: map[string]bool{}, ctrs: map[string]string{}, shape: map[string]int{}}

	switch verifChoice("initial", 3) {
	case 1:
		w.insertPod("p0")
	case 2:
		w.insertPod("p0")
		w.insertContainer("c0", "p0", verifChoice("initial.shape", shapes))
	}
	w.check()

	n := verifParam("steps", 2)
	for k := 0; k < n; k++ {
		switch verifChoice("op", verifC14Ops) {
		case verifC14InsertPod:
			w.insertPod(verifC14PodIDs[verifChoice("pod", 2)])
		case verifC14InsertContainer:
			// pod: p0, p1 (known or not, depending on history) or pX (never known)
			podID := []string{"p0", "p1", "pX"}[verifChoice("pod", 3)]
			w.insertContainer(verifC14CtrIDs[verifChoice("ctr", 2)], podID, verifChoice("shape", shapes))
		case verifC14DeletePod:
			id := verifC14PodIDs[verifChoice("pod", 2)]
			if verifC14Try(func() { w.cch.DeletePod(id) }) {
				verifAssert("C14.cache.no-panic.DeletePod", false)
			}
			delete(w.pods, id)
		case verifC14DeleteContainer:
			id := verifC14CtrIDs[verifChoice("ctr", 2)]
			if verifC14Try(func() { w.cch.DeleteContainer(id) }) {
				verifAssert("C14.cache.no-panic.DeleteContainer", false)
			}
			delete(w.ctrs, id)
		case verifC14Update:
			w.update(verifC14CtrIDs[verifChoice("ctr", 2)], verifChoice("update", updShapes))
		case verifC14RefreshPods:
			w.refreshPods(verifChoice("listed", 4))
		case verifC14RefreshContainers:
			w.refreshContainers(verifChoice("listed", 4), []string{"p1", "pX"}[verifChoice("pod", 2)])
		case verifC14MarkPending:
			// what a policy does while a request is processed: a setter marks the
			// container as having changes the runtime must be told
			id := verifC14CtrIDs[verifChoice("ctr", 2)]
			if c, ok := w.cch.LookupContainer(id); ok {
				if verifC14Try(func() { c.SetCPUShares(2) }) {
					verifAssert("C14.cache.no-panic.SetCPUShares", false)
				}
				verifCover("marked-pending")
			}
		}
		verifCover("operation-done")
		w.check()
	}

	// a valid life cycle still works
	w.insertPod("pz")
	w.insertContainer("cz", "pz", verifShapeFull)
	w.check()
	c, ok := w.cch.LookupContainer("cz")
	if ok {
		_, hasPod := c.GetPod()
		verifAssert("C14.cache.follow-up-works", hasPod && c.GetState() == ContainerStateCreating)
		verifCover("follow-up-works")
	}
}
