//go:build verif

package cache

// C15 (pod-resource fetch part): "no request deadlocks" and "a pod's resources
// that are being fetched asynchronously are observed by every later reader
// once the fetch has been started".
//
// Real code: createPod (all of cache.InsertPod but its Save) -> goFetchPodResources (the fetch
// goroutine), pod.GetPodResources, cache.InsertContainer (a reader inside the
// CreateContainer handler). The agent's side is the harness copy of
// Agent.GoGetPodResources' goroutine (pkg/agent/pod-resource-api.go:38-50):
// a channel of capacity 1 that receives the result and is then closed, or is
// closed without a value when the query failed or timed out.
//
// Schedules: the engine queues goroutines instead of running them
// ("deferGo"); the harness lets the solver choose whether the queued
// goroutines (agent query, fetch goroutine) run before the reader or only
// when the reader would block. A reader that still blocks when nothing else
// can run is a deadlock.

import (
	podresapi "github.com/containers/nri-plugins/pkg/agent/podresapi"
	api "k8s.io/kubelet/pkg/apis/podresources/v1"
)

func VerifC15FetchRendezvous() {
	verifSerialize()
	dir, cleanup := verifTempDir()
	defer cleanup()
	cch := verifNewCacheAt(dir)

	res := &podresapi.PodResources{PodResources: &api.PodResources{Name: "pod-p0", Namespace: "default",
		Containers: []*api.ContainerResources{{Name: "ctr-c0", CpuIds: []int64{1}}}}}

	// outcome of the agent's query
	outcome := verifChoice("outcome", 3) // 0: no pod-resources client, 1: result, 2: query failed / timed out
	var ch chan *podresapi.PodResources
	if outcome != 0 {
		ch = make(chan *podresapi.PodResources, 1)
		// the agent's goroutine
		go func() {
			defer close(ch)
			if outcome == 1 {
				ch <- res
			}
		}()
	}
	if verifChoice("agent-first", 2) == 1 {
		verifRunGoroutines()
	}

	// InsertPod without its Save: natively the file I/O of Save would let the
	// fetch goroutine run, and the schedule "reader first" could not be replayed
	var p *pod
	if outcome == 0 {
		p = cch.createPod(verifC14Pod("p0"), nil)
	} else {
		p = cch.createPod(verifC14Pod("p0"), ch)
	}
	cch.Pods["p0"] = p
	verifCover("fetch-started")
	if verifChoice("fetch-first", 2) == 1 {
		verifRunGoroutines()
		verifCover("fetch-goroutine-ran-before-reader")
	} else {
		verifCover("reader-ran-before-fetch-goroutine")
	}

	// reader 1: GetPodResources directly
	var got *podresapi.PodResources
	reader := verifChoice("reader", 2)
	var done bool
	if reader == 0 {
		done = verifCompletes(func() { got = p.GetPodResources() })
		verifAssert("C15.fetch.reader-not-blocked", done)
		if done {
			verifAssert("C15.fetch.reader-observes-result", (outcome == 1) == (got == res))
			verifAssert("C15.fetch.no-result-without-success", outcome == 1 || got == nil)
		}
		return
	}
	// reader 2: the CreateContainer handler's InsertContainer
	var c Container
	var err error
	ctr := verifC14Container("c0", "p0", verifShapeFull)
	ctr.Name = "ctr-c0"
	done = verifCompletes(func() { c, err = cch.InsertContainer(ctr) })
	verifAssert("C15.fetch.insert-container-not-blocked", done)
	if done && err == nil {
		// the resources the container was created with (read once, in createContainer)
		cr := c.(*container).PodResources
		verifAssert("C15.fetch.container-observes-result", (outcome == 1) == (cr != nil && len(cr.GetCpuIds()) == 1 && cr.GetCpuIds()[0] == 1))
	}
}
