//go:build verif

package cache

// Shared fixtures of the cache harnesses (C05, C10, C20-estimate).
//
// verifNewCache builds a real *cache the way NewCache does (same maps, same
// initial values) but without NewCache's file-system prefix (checkPerm,
// mkdirAll, Load). Pods and containers are inserted by constructing the
// structs createPod/createContainer build, without topology hint generation
// (which reads sysfs) and without Save.

import (
	nri "github.com/containerd/nri/pkg/api"
	v1 "k8s.io/api/core/v1"
)

func verifNewCacheAt(dir string) *cache {
	return &cache{
		filePath:   dir + "/cache",
		dataDir:    dir + "/containers",
		Pods:       make(map[string]*pod),
		Containers: make(map[string]*container),
		NextID:     1,
		policyData: make(map[string]interface{}),
		PolicyJSON: make(map[string]string),
		implicit:   make(map[string]ImplicitAffinity),
	}
}

func verifNewCache() *cache { return verifNewCacheAt("/verif-cache") }

func (cch *cache) verifAddPod(id string, qos v1.PodQOSClass) *pod {
	p := &pod{
		cache:    cch,
		Pod:      &nri.PodSandbox{Id: id, Name: "pod-" + id, Uid: "uid-" + id, Namespace: "default"},
		QOSClass: qos,
	}
	cch.Pods[id] = p
	return p
}

// verifAddContainer inserts a container in the given state. res == nil
// leaves Ctr.Linux nil (a container the runtime reported without resources).
func (cch *cache) verifAddContainer(id, podID string, state ContainerState, res *nri.LinuxResources) *container {
	ctr := &nri.Container{Id: id, PodSandboxId: podID, Name: "ctr-" + id, State: state}
	if res != nil {
		ctr.Linux = &nri.LinuxContainer{Resources: res}
	}
	c := &container{
		cache: cch,
		Ctr:   ctr,
		Tags:  make(map[string]string),
	}
	cch.Containers[id] = c
	return c
}
