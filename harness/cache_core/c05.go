//go:build verif

package cache

// C05 (cache layer): every resource decision reaches the runtime.
//
// Real code: container.Set{CPUShares,CPUQuota,CPUPeriod,CpusetCpus,
// CpusetMems,MemoryLimit,MemorySwap}, getPendingRequest, markPending,
// GetPendingAdjustment, GetPendingUpdate, GetPending, ClearPending,
// cache.markPending/clearPending/GetPendingContainers, InsertMount,
// UpdateState, DeleteContainer, the seven Get*().
//
// The functions that drain pending requests into an NRI reply,
// nriPlugin.getPendingAdjustment/getPendingUpdates, live in package resmgr
// (pkg/resmgr/nri.go:663-696); verifDrainAdjustment/verifDrainUpdates below
// are statement-by-statement copies of them minus setDefaultClasses (RDT and
// block I/O class defaults, not part of C05). VerifC05Drain in
// harness/resmgr_c05 drives the real ones.

import (
	"os"

	nri "github.com/containerd/nri/pkg/api"
	v1 "k8s.io/api/core/v1"
)

// verifRT is what the runtime has been told about one container.
type verifRT struct {
	shares, period     uint64
	quota, limit, swap int64
	cpus, mems         string
}

func verifRTOf(c *container) *verifRT {
	return &verifRT{
		shares: uint64(c.GetCPUShares()), quota: c.GetCPUQuota(), period: uint64(c.GetCPUPeriod()),
		cpus: c.GetCpusetCpus(), mems: c.GetCpusetMems(),
		limit: c.GetMemoryLimit(), swap: c.GetMemorySwap(),
	}
}

// apply merges resources of an adjustment/update the way an NRI runtime
// does: only fields that are present change.
func (r *verifRT) apply(res *nri.LinuxResources) {
	if res == nil {
		return
	}
	if cpu := res.Cpu; cpu != nil {
		if cpu.Shares != nil {
			r.shares = cpu.Shares.Value
		}
		if cpu.Quota != nil {
			r.quota = cpu.Quota.Value
		}
		if cpu.Period != nil {
			r.period = cpu.Period.Value
		}
		if cpu.Cpus != "" {
			r.cpus = cpu.Cpus
		}
		if cpu.Mems != "" {
			r.mems = cpu.Mems
		}
	}
	if mem := res.Memory; mem != nil {
		if mem.Limit != nil {
			r.limit = mem.Limit.Value
		}
		if mem.Swap != nil {
			r.swap = mem.Swap.Value
		}
	}
}

// equals returns one term: runtime view == cache view for all seven
// resources (the cpuset strings only if withCpus/withMems).
func (r *verifRT) equals(c *container, withCpus, withMems bool) bool {
	ok := int64(r.shares) == c.GetCPUShares()
	ok = verifAnd(ok, r.quota == c.GetCPUQuota())
	ok = verifAnd(ok, int64(r.period) == c.GetCPUPeriod())
	if withCpus {
		ok = verifAnd(ok, r.cpus == c.GetCpusetCpus())
	}
	if withMems {
		ok = verifAnd(ok, r.mems == c.GetCpusetMems())
	}
	ok = verifAnd(ok, r.limit == c.GetMemoryLimit())
	ok = verifAnd(ok, r.swap == c.GetMemorySwap())
	return ok
}

const (
	verifResShares = iota
	verifResQuota
	verifResPeriod
	verifResCpus
	verifResMems
	verifResLimit
	verifResSwap
	verifResCount
)

// verifC05String returns a cpuset-valued string: three solver-chosen bytes
// (the code under test never parses it), or, with parameter emptyCpuset=1,
// possibly the empty string (which NRI cannot convey: an empty cpuset field
// in an update means "unchanged"; see label C05.runtime-equals-cache.empty-cpuset).
func verifC05String(name string, pinned bool) string {
	// emptyOnlyPinned=1: only for the container that starts out pinned (the
	// only one where an empty value differs from what the runtime has)
	if verifParam("emptyCpuset", 0) == 1 && (pinned || verifParam("emptyOnlyPinned", 0) == 0) && verifChoice(name+".empty", 2) == 1 {
		return ""
	}
	b := []byte{verifNondetUint8(name + ".b0"), verifNondetUint8(name + ".b1"), verifNondetUint8(name + ".b2")}
	return string(b)
}

// verifC05Set performs one real Set* call with a symbolic value.
func verifC05Set(c *container, op int) {
	switch op {
	case verifResShares:
		c.SetCPUShares(verifNondetInt64("shares"))
	case verifResQuota:
		c.SetCPUQuota(verifNondetInt64("quota"))
	case verifResPeriod:
		c.SetCPUPeriod(verifNondetInt64("period"))
	case verifResCpus:
		c.SetCpusetCpus(verifC05String("cpus", c.GetID() == "C"))
	case verifResMems:
		c.SetCpusetMems(verifC05String("mems", c.GetID() == "C"))
	case verifResLimit:
		c.SetMemoryLimit(verifNondetInt64("limit"))
	case verifResSwap:
		c.SetMemorySwap(verifNondetInt64("swap"))
	}
}

// copy of nriPlugin.getPendingAdjustment (pkg/resmgr/nri.go) minus setDefaultClasses
func verifDrainAdjustment(cch *cache, id string) *nri.ContainerAdjustment {
	if c, ok := cch.LookupContainer(id); ok {
		adjust := c.GetPendingAdjustment()
		for _, ctrl := range c.GetPending() {
			c.ClearPending(ctrl)
		}
		return adjust
	}
	return nil
}

// copy of nriPlugin.getPendingUpdates (pkg/resmgr/nri.go) minus setDefaultClasses
func verifDrainUpdates(cch *cache, skip string) []*nri.ContainerUpdate {
	updates := []*nri.ContainerUpdate{}
	for _, c := range cch.GetPendingContainers() {
		if skip != "" && skip == c.GetID() {
			continue
		}
		if u := c.GetPendingUpdate(); u != nil {
			updates = append(updates, u)
			for _, ctrl := range c.GetPending() {
				c.ClearPending(ctrl)
			}
		}
	}
	return updates
}

// verifPendingResources returns the resources of the request currently
// pending for c (nil if none) and whether it is an adjustment.
func verifPendingResources(c *container) (res *nri.LinuxResources, isAdjust, isUpdate bool) {
	switch req := c.request.(type) {
	case *nri.ContainerAdjustment:
		return req.GetLinux().GetResources(), true, false
	case *nri.ContainerUpdate:
		return req.GetLinux().GetResources(), false, true
	}
	return nil, false, false
}

// verifPendingMatches: the pending request carries, for every resource in
// touched, exactly the value the cache reports, and nothing for the others.
func verifPendingMatches(c *container, res *nri.LinuxResources, touched *[verifResCount]bool) bool {
	cpu, mem := res.GetCpu(), res.GetMemory()
	ok := true
	if touched[verifResShares] {
		ok = verifAnd(ok, verifAnd(cpu.GetShares() != nil, int64(cpu.GetShares().GetValue()) == c.GetCPUShares()))
	} else {
		ok = verifAnd(ok, cpu.GetShares() == nil)
	}
	if touched[verifResQuota] {
		ok = verifAnd(ok, verifAnd(cpu.GetQuota() != nil, cpu.GetQuota().GetValue() == c.GetCPUQuota()))
	} else {
		ok = verifAnd(ok, cpu.GetQuota() == nil)
	}
	if touched[verifResPeriod] {
		ok = verifAnd(ok, verifAnd(cpu.GetPeriod() != nil, int64(cpu.GetPeriod().GetValue()) == c.GetCPUPeriod()))
	} else {
		ok = verifAnd(ok, cpu.GetPeriod() == nil)
	}
	if touched[verifResCpus] {
		ok = verifAnd(ok, cpu.GetCpus() == c.GetCpusetCpus())
	} else {
		ok = verifAnd(ok, cpu.GetCpus() == "")
	}
	if touched[verifResMems] {
		ok = verifAnd(ok, cpu.GetMems() == c.GetCpusetMems())
	} else {
		ok = verifAnd(ok, cpu.GetMems() == "")
	}
	if touched[verifResLimit] {
		ok = verifAnd(ok, verifAnd(mem.GetLimit() != nil, mem.GetLimit().GetValue() == c.GetMemoryLimit()))
	} else {
		ok = verifAnd(ok, mem.GetLimit() == nil)
	}
	if touched[verifResSwap] {
		ok = verifAnd(ok, verifAnd(mem.GetSwap() != nil, mem.GetSwap().GetValue() == c.GetMemorySwap()))
	} else {
		ok = verifAnd(ok, mem.GetSwap() == nil)
	}
	return ok
}

// verifTempDir: natively a fresh directory (removed by the returned
// function); under the engine a constant path of the file-system model.
func verifTempDir() (string, func()) {
	verifFSReset()
	if verifSymbolic() {
		verifFS.put("/verif-cache", os.ModeDir|0o700, nil)
		return "/verif-cache", func() {}
	}
	dir, err := os.MkdirTemp("", "verif-cache-")
	if err != nil {
		panic(err)
	}
	return dir, func() { os.RemoveAll(dir) }
}

const (
	verifModeCreate = iota // reply to CreateContainer(A)
	verifModeOther         // reply to any other request / post-reconfiguration push
	verifModeRemoved       // as verifModeOther, after the runtime removed container C
	verifModeCount
)

// VerifC05Pending: containers A, B, C; a solver-chosen sequence of `calls`
// real Set* calls on solver-chosen targets with symbolic values, as a policy
// would make while one NRI request is processed; then the reply is drained.
func VerifC05Pending() {
	dir, cleanup := verifTempDir()
	defer cleanup()
	cch := verifNewCacheAt(dir)
	cch.verifAddPod("pod0", v1.PodQOSBurstable)

	mode := verifChoice("mode", verifModeCount)
	stateA := ContainerStateCreated
	if mode == verifModeCreate {
		stateA = ContainerStateCreating
	}
	// A: as CreateContainer inserts it (resources as requested by the runtime)
	a := cch.verifAddContainer("A", "pod0", stateA, &nri.LinuxResources{
		Cpu:    &nri.LinuxCPU{Shares: nri.UInt64(uint64(2)), Quota: nri.Int64(int64(0)), Period: nri.UInt64(uint64(100000))},
		Memory: &nri.LinuxMemory{Limit: nri.Int64(int64(1 << 30))},
	})
	// B: reported without any Linux section; C: pinned earlier
	b := cch.verifAddContainer("B", "pod0", ContainerStateCreated, nil)
	c := cch.verifAddContainer("C", "pod0", ContainerStateRunning, &nri.LinuxResources{
		Cpu: &nri.LinuxCPU{Shares: nri.UInt64(uint64(1024)), Cpus: "0-3", Mems: "0"},
	})
	ctrs := []*container{a, b, c}

	// the runtime's view starts out equal to the cache's
	rt := map[string]*verifRT{}
	for _, x := range ctrs {
		rt[x.GetID()] = verifRTOf(x)
	}

	n := verifParam("calls", 2)
	// CreateContainer: InsertMount + UpdateState(Created) happen after the
	// policy allocated (nri.go:431-438), hooks may still change things after.
	finishAt := n
	if mode == verifModeCreate && n > 0 && verifParam("hooks", 1) == 1 {
		finishAt = n - verifChoice("finishBefore", 2)
	}
	finishCreate := func() {
		a.InsertMount(&Mount{Destination: "/.nri-resource-policy", Source: cch.ContainerDirectory("A"), Type: "bind"})
		a.UpdateState(ContainerStateCreated)
	}

	var touched [3][verifResCount]bool
	var any, emptyCpus, emptyMems [3]bool // emptyX: the last SetCpusetX on the container passed ""
	for k := 0; k < n; k++ {
		if mode == verifModeCreate && k == finishAt {
			finishCreate()
		}
		t := verifChoice("target", 3)
		op := verifChoice("op", verifResCount)
		verifC05Set(ctrs[t], op)
		touched[t][op] = true
		any[t] = true
		if op == verifResCpus {
			emptyCpus[t] = len(ctrs[t].GetCpusetCpus()) == 0
		}
		if op == verifResMems {
			emptyMems[t] = len(ctrs[t].GetCpusetMems()) == 0
		}
	}
	if mode == verifModeCreate && finishAt == n {
		finishCreate()
	}
	if mode == verifModeCreate {
		any[0] = true // InsertMount marks A pending
	}

	// ---- contract before draining
	pending := cch.GetPendingContainers()
	for t, x := range ctrs {
		in := false
		for _, p := range pending {
			if p.GetID() == x.GetID() {
				in = true
			}
		}
		verifAssert("C05.pending-iff-changed", in == any[t])
		verifAssert("C05.pending-mark-iff-changed", x.HasPending(NRI) == any[t])
		res, isAdjust, isUpdate := verifPendingResources(x)
		verifAssert("C05.request-iff-changed", (isAdjust || isUpdate) == any[t])
		if any[t] {
			verifAssert("C05.request-kind", isAdjust == (mode == verifModeCreate && t == 0))
			verifAssert("C05.request-carries-cache-values", verifPendingMatches(x, res, &touched[t]))
		}
	}

	// ---- the runtime removes C (RemoveContainer: real DeleteContainer)
	live := ctrs
	if mode == verifModeRemoved {
		cch.DeleteContainer("C")
		live = ctrs[:2]
	}

	// ---- drain as the reply is built
	var adjust *nri.ContainerAdjustment
	var updates []*nri.ContainerUpdate
	switch mode {
	case verifModeCreate:
		verifCover("create-reply")
		adjust = verifDrainAdjustment(cch, "A")
		updates = verifDrainUpdates(cch, "A")
		verifAssert("C05.adjustment-present", adjust != nil)
		if adjust == nil {
			return
		}
		verifAssert("C05.adjustment-has-mount", len(adjust.Mounts) == 1)
		verifAssert("C05.adjustment-describes-created-container", verifPendingMatches(a, adjust.GetLinux().GetResources(), &touched[0]))
		if adjust.GetLinux().GetResources() != nil {
			verifCover("adjustment-with-resources")
		}
		rt["A"].apply(adjust.GetLinux().GetResources())
	default:
		verifCover("other-reply")
		updates = verifDrainUpdates(cch, "")
	}

	count := map[string]int{}
	for _, u := range updates {
		verifCover("update-sent")
		id := u.GetContainerId()
		count[id]++
		var target *container
		for _, x := range live {
			if x.GetID() == id {
				target = x
			}
		}
		verifAssert("C05.update-addresses-live-container", target != nil)
		if target == nil {
			continue
		}
		st := target.GetState()
		verifAssert("C05.update-addresses-live-container", st != ContainerStateExited && st != ContainerStateStale)
		verifAssert("C05.no-update-for-container-being-created", !(mode == verifModeCreate && id == "A"))
		rt[id].apply(u.GetLinux().GetResources())
	}
	if len(updates) >= 2 {
		verifCover("two-updates-in-one-reply")
	}
	if mode == verifModeRemoved && any[2] {
		verifCover("removed-container-had-pending-change")
	}
	for _, x := range ctrs {
		verifAssert("C05.at-most-one-update-per-container", count[x.GetID()] <= 1)
	}

	// ---- after the reply
	verifAssert("C05.nothing-pending", len(cch.GetPendingContainers()) == 0)
	for t, x := range live {
		verifAssert("C05.nothing-pending", x.request == nil && len(x.GetPending()) == 0)
		verifAssert("C05.runtime-equals-cache", rt[x.GetID()].equals(x, !emptyCpus[t], !emptyMems[t]))
		if emptyCpus[t] {
			verifAssert("C05.runtime-equals-cache.empty-cpuset", rt[x.GetID()].cpus == x.GetCpusetCpus())
		}
		if emptyMems[t] {
			verifAssert("C05.runtime-equals-cache.empty-cpuset", rt[x.GetID()].mems == x.GetCpusetMems())
		}
	}
}
