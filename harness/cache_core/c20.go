//go:build verif

package cache

// C20 (part): estimateResourceRequirements builds requests/limits per QoS
// class from the NRI resources of a container.
//
// Real code: estimateResourceRequirements, kubernetes.SharesToMilliCPU,
// kubernetes.QuotaToMilliCPU, kubernetes.OomAdjToMemReq (+ MemReqToOomAdj,
// SetMemoryCapacity/CalculateOomAdjToMemReqEstimates for ONE concrete
// capacity), resource.NewQuantity/NewMilliQuantity/Value/MilliValue.
//
// What the function promises (read off utils.go:39-84):
//   - a CPU request is present iff SharesToMilliCPU(cpu.shares) > 0 and then
//     equals it (for shares != 2 that is round-half-up of shares*1000/1024);
//   - a memory limit is present iff memory.limit > 0 and then equals it;
//   - Guaranteed: CPU limit = CPU request and memory request = memory limit
//     (both entries always present, zero if the source is absent); quota,
//     period and the OOM score play no role;
//   - Burstable: a memory request is present iff the OOM score adjustment is
//     in the burstable range [3,999], the estimate for it is non-zero and
//     (no memory limit is known or the estimate is below it); it is the
//     estimate, i.e. a request that maps back to that OOM score adjustment;
//   - Burstable and BestEffort: a CPU limit is present iff
//     QuotaToMilliCPU(cpu.quota, cpu.period) > 0 and then equals it (quota
//     and period in that order, from no other field);
//   - BestEffort never gets a memory request; any other class gets neither
//     CPU limit nor memory request;
//   - nothing but cpu and memory entries ever appears.

import (
	nri "github.com/containerd/nri/pkg/api"
	corev1 "k8s.io/api/core/v1"

	"github.com/containers/nri-plugins/pkg/kubernetes"
)

var verifC20Classes = []corev1.PodQOSClass{corev1.PodQOSGuaranteed, corev1.PodQOSBurstable, corev1.PodQOSBestEffort, ""}

// OOM score adjustments: below/at/inside/at/above the burstable range, and
// the fixed Guaranteed value.
var verifC20Periods = []uint64{0, 1000, 50000, 100000}

var verifC20OomAdj = []int64{2, 3, 500, 999, 1000, -997}

// VerifC20EstimateCPU: cpu section only, shares and quota symbolic.
func VerifC20EstimateCPU() { verifC20Estimate(verifC20SymbolicCPU) }

// VerifC20EstimateMemory: memory section only, limit symbolic, every OOM
// score adjustment of verifC20OomAdj.
func VerifC20EstimateMemory() { verifC20Estimate(verifC20NoCPU) }

// VerifC20EstimateBoth: both sections; memory limit symbolic, cpu values from
// a few representative constants (the cpu and memory parts of the function
// do not interact except through the QoS class).
func VerifC20EstimateBoth() { verifC20Estimate(verifC20ConcreteCPU) }

const (
	verifC20SymbolicCPU = iota
	verifC20NoCPU
	verifC20ConcreteCPU
)

var verifC20ConcreteShares = []uint64{2, 1024}
var verifC20ConcreteQuota = [][2]int64{{0, 0}, {150000, 100000}}

func verifC20Estimate(variant int) {
	// Natively init() filled the OOM table from /proc/meminfo, the engine's
	// best-effort init could not: make both worlds use one stated capacity.
	capacity := int64(verifParam("memCapacityMiB", 16384)) << 20
	kubernetes.SetMemoryCapacity(capacity)

	qos := verifC20Classes[verifChoice("qos", len(verifC20Classes))]
	// the OOM score adjustment the kubelet gives a container of that class;
	// only the Burstable branch looks at it, so only there it is varied
	oomAdj := int64(kubernetes.GuaranteedOOMScoreAdj)
	switch qos {
	case corev1.PodQOSBurstable:
		adjs := verifC20OomAdj
		if variant == verifC20SymbolicCPU {
			adjs = adjs[2:5] // {500, 999, 1000}: the cpu part does not depend on it
		}
		oomAdj = adjs[verifChoice("oomAdj", len(adjs))]
	case corev1.PodQOSBestEffort:
		oomAdj = kubernetes.BestEffortOOMScoreAdj
	}

	var shares, period uint64
	var quota, memLimit int64
	r := &nri.LinuxResources{}
	switch variant {
	case verifC20SymbolicCPU:
		shares = verifNondetUint64("shares")
		verifAssume(shares <= uint64(verifParam("maxShares", 262144)))
		if qos == corev1.PodQOSBurstable || qos == corev1.PodQOSBestEffort {
			// (the other classes never look at quota and period)
			quota = verifNondetInt64("quota")
			verifAssume(verifAnd(quota >= -1, quota <= int64(verifParam("maxQuota", 25600000))))
			// CFS periods: unset, the kernel minimum, a custom one, the default
			// (concrete: a floating-point division by a symbolic period does not
			// finish in the solver)
			period = verifC20Periods[verifChoice("period", len(verifC20Periods))]
		} else {
			quota, period = 150000, 100000
		}
	case verifC20ConcreteCPU:
		shares = verifC20ConcreteShares[verifChoice("shares", len(verifC20ConcreteShares))]
		qp := verifC20ConcreteQuota[verifChoice("quota", len(verifC20ConcreteQuota))]
		quota, period = qp[0], uint64(qp[1])
	}
	if variant != verifC20NoCPU {
		r.Cpu = &nri.LinuxCPU{Shares: nri.UInt64(shares), Quota: nri.Int64(quota), Period: nri.UInt64(period)}
	}
	if variant != verifC20SymbolicCPU {
		memLimit = verifNondetInt64("memLimit")
		verifAssume(verifAnd(memLimit >= -1, memLimit <= int64(1)<<50))
		r.Memory = &nri.LinuxMemory{Limit: nri.Int64(memLimit)}
	}

	res := estimateResourceRequirements(r, qos, oomAdj)

	cpuReq, hasCPUReq := res.Requests[corev1.ResourceCPU]
	memReq, hasMemReq := res.Requests[corev1.ResourceMemory]
	cpuLim, hasCPULim := res.Limits[corev1.ResourceCPU]
	memLim, hasMemLim := res.Limits[corev1.ResourceMemory]
	n := func(bs ...bool) int {
		k := 0
		for _, b := range bs {
			if b {
				k++
			}
		}
		return k
	}
	verifCover("estimated")
	verifAssert("C20.estimate.only-cpu-and-memory", len(res.Requests) == n(hasCPUReq, hasMemReq) && len(res.Limits) == n(hasCPULim, hasMemLim))

	// CPU request <- shares
	wantReq := kubernetes.SharesToMilliCPU(int64(shares))
	verifAssert("C20.estimate.cpu-request-from-shares", hasCPUReq == (wantReq > 0))
	if hasCPUReq {
		verifCover("cpu-request")
		verifAssert("C20.estimate.cpu-request-from-shares", cpuReq.MilliValue() == wantReq)
		if verifParam("sharesSpec", 1) == 1 && qos == "" && variant == verifC20SymbolicCPU {
			// independent integer statement of the rounding (checked on one
			// configuration only: the term does not depend on the others)
			verifAssert("C20.estimate.cpu-request-is-rounded-shares", cpuReq.MilliValue() == (int64(shares)*1000+512)/1024)
		}
	}
	// memory limit <- memory.limit
	verifAssert("C20.estimate.memory-limit", hasMemLim == (memLimit > 0))
	if hasMemLim {
		verifCover("memory-limit")
		verifAssert("C20.estimate.memory-limit", memLim.Value() == memLimit)
	}

	wantLim := kubernetes.QuotaToMilliCPU(quota, int64(period))
	switch qos {
	case corev1.PodQOSGuaranteed:
		verifCover("guaranteed")
		verifAssert("C20.estimate.guaranteed-cpu-limit-equals-request", hasCPULim && cpuLim.MilliValue() == verifIteInt64(hasCPUReq, cpuReq.MilliValue(), 0))
		verifAssert("C20.estimate.guaranteed-memory-request-equals-limit", hasMemReq && memReq.Value() == verifIteInt64(hasMemLim, memLim.Value(), 0))
	case corev1.PodQOSBurstable, corev1.PodQOSBestEffort:
		verifAssert("C20.estimate.cpu-limit-from-quota-and-period", hasCPULim == (wantLim > 0))
		if hasCPULim {
			verifCover("cpu-limit-from-quota")
			verifAssert("C20.estimate.cpu-limit-from-quota-and-period", cpuLim.MilliValue() == wantLim)
		}
		if qos == corev1.PodQOSBestEffort {
			verifCover("besteffort")
			verifAssert("C20.estimate.besteffort-no-memory-request", !hasMemReq)
			break
		}
		verifCover("burstable")
		inRange := oomAdj >= kubernetes.MinBurstableOOMScoreAdj && oomAdj <= kubernetes.MaxBurstableOOMScoreAdj
		est := int64(0)
		if inRange {
			// the table entry (a zero limit means "no limit known")
			est = *kubernetes.OomAdjToMemReq(oomAdj, 0)
		}
		want := verifAnd(inRange && est != 0, verifOr(memLimit == 0, est < memLimit))
		verifAssert("C20.estimate.burstable-memory-request-iff-estimate-fits", hasMemReq == want)
		if hasMemReq {
			verifCover("burstable-memory-request")
			got := memReq.Value()
			verifAssert("C20.estimate.burstable-memory-request-is-estimate", got == est)
			verifAssert("C20.estimate.burstable-memory-request-maps-back-to-oom-adj", kubernetes.MemReqToOomAdj(got) == oomAdj)
		}
	default:
		verifCover("other-class")
		verifAssert("C20.estimate.other-class-no-cpu-limit-no-memory-request", !hasCPULim && !hasMemReq)
	}
}

// node memory capacities (bytes) for VerifC20OomTable: the minimum, odd sizes,
// common sizes, and sizes whose capacity/1000 does not fit 32 bits
var verifC20Capacities = []int64{
	1 << 20, 1<<20 + 1, 999999999, 4 << 30, 63<<30 + 12345, 16 << 30, 1536 << 30,
	2 << 40, 2164663517184, 3 << 40, 6 << 40, 64 << 40,
}

// VerifC20OomTable: for a capacity of the table the OOM-adjustment table is
// built without failing, and every Burstable adjustment 3..999 maps to a
// request estimate that maps back to the same adjustment.
func VerifC20OomTable() {
	capacity := verifC20Capacities[verifChoice("capacity", verifParam("capacities", len(verifC20Capacities)))]
	kubernetes.SetMemoryCapacity(capacity) // a panic here is reported as finding `panic`
	verifCover("table-built")
	ok := true
	for adj := int64(kubernetes.MinBurstableOOMScoreAdj); adj <= kubernetes.MaxBurstableOOMScoreAdj; adj++ {
		est := kubernetes.OomAdjToMemReq(adj, 0)
		ok = ok && est != nil && kubernetes.MemReqToOomAdj(*est) == adj
	}
	verifAssert("C20.oom-table.every-burstable-adjustment-maps-back", ok)
}
