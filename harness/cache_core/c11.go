//go:build verif

package cache

// C11 (cache part): RefreshPods + RefreshContainers reconcile the cache with
// what the runtime lists.
//
// Real code: cache.RefreshPods, RefreshContainers, InsertPod/createPod,
// InsertContainer/createContainer, DeletePod, DeleteContainer, UpdateState,
// Save (on the file-system model of fsmodel.go; natively a temporary
// directory). Called in the order Synchronize calls them (pkg/resmgr/nri.go:
// 208-214).

import (
	nri "github.com/containerd/nri/pkg/api"
	v1 "k8s.io/api/core/v1"
)

type verifC11Ctr struct{ id, pod string }

var verifC11Pods = []string{"p0", "p1"}
var verifC11Ctrs = []verifC11Ctr{{"c0", "p0"}, {"c1", "p0"}, {"c2", "p1"}}

func verifC11Count(l []Container, id string) int {
	n := 0
	for _, c := range l {
		if c.GetID() == id {
			n++
		}
	}
	return n
}

func verifC11CountPods(l []Pod, id string) int {
	n := 0
	for _, p := range l {
		if p.GetID() == id {
			n++
		}
	}
	return n
}

// VerifC11Refresh: a cache pre-loaded with a solver-chosen set of <= 2 pods
// and <= 3 of their containers; the runtime lists a solver-chosen subset of
// the pods (possibly none) plus possibly a new pod p2, and a solver-chosen
// subset of the containers (possibly none, also while their pod is still
// listed) plus possibly one new container cN (in p0 or in p2).
func VerifC11Refresh() {
	dir, cleanup := verifTempDir()
	defer cleanup()
	cch := verifNewCacheAt(dir)

	// ---- what the cache knows
	cachedPods := verifChoice("cached.pods", 4) // bit k: pod pk
	cachedCtrs := verifChoice("cached.ctrs", 8) // bit k: container ck
	hasPod := map[string]bool{}
	for k, id := range verifC11Pods {
		if cachedPods&(1<<uint(k)) != 0 {
			cch.verifAddPod(id, v1.PodQOSBurstable)
			hasPod[id] = true
		}
	}
	cached := map[string]*container{}
	for k, c := range verifC11Ctrs {
		if cachedCtrs&(1<<uint(k)) != 0 {
			verifAssume(hasPod[c.pod]) // a cached container has its pod cached
			cached[c.id] = cch.verifAddContainer(c.id, c.pod, ContainerStateRunning, verifC14Resources(verifShapeFull))
		}
	}

	// ---- what the runtime lists
	listedPods := verifChoice("listed.pods", 8) // bits 0,1: p0, p1; bit 2: new pod p2
	listedCtrs := verifChoice("listed.ctrs", 8) // bit k: container ck
	newCtr := verifChoice("listed.new", 3)      // 0: none, 1: cN in p0, 2: cN in p2
	var pods []*nri.PodSandbox
	podListed := map[string]bool{}
	for k, id := range []string{"p0", "p1", "p2"} {
		if listedPods&(1<<uint(k)) != 0 {
			pods = append(pods, verifC14Pod(id))
			podListed[id] = true
		}
	}
	var ctrs []*nri.Container
	ctrListed := map[string]string{}
	for k, c := range verifC11Ctrs {
		if listedCtrs&(1<<uint(k)) != 0 {
			// a runtime lists a container only together with its pod
			verifAssume(podListed[c.pod])
			ctrs = append(ctrs, verifC14Container(c.id, c.pod, verifShapeFull))
			ctrListed[c.id] = c.pod
		}
	}
	if newCtr != 0 {
		pod := []string{"", "p0", "p2"}[newCtr]
		verifAssume(podListed[pod])
		ctrs = append(ctrs, verifC14Container("cN", pod, verifShapeFull))
		ctrListed["cN"] = pod
	}
	if len(pods) == 0 {
		verifCover("empty-pod-list")
	}
	if len(ctrs) == 0 && len(pods) > 0 && len(cached) > 0 {
		verifCover("empty-container-list-with-pods-listed")
	}

	// ---- as Synchronize does
	addedPods, deletedPods, purged := cch.RefreshPods(pods, nil)
	added, deleted := cch.RefreshContainers(ctrs)
	verifCover("refreshed")

	// pods: added == listed unknown ones, deleted == cached unlisted ones
	for _, id := range []string{"p0", "p1", "p2"} {
		wantAdd, wantDel := 0, 0
		if podListed[id] && !hasPod[id] {
			wantAdd = 1
		}
		if hasPod[id] && !podListed[id] {
			wantDel = 1
		}
		verifAssert("C11.refresh.pods-added-exactly-the-listed-unknown", verifC11CountPods(addedPods, id) == wantAdd)
		verifAssert("C11.refresh.pods-deleted-exactly-the-cached-unlisted", verifC11CountPods(deletedPods, id) == wantDel)
		_, ok := cch.LookupPod(id)
		verifAssert("C11.refresh.cached-pods-are-the-listed-pods", ok == podListed[id])
	}
	nNewPods := 0
	for id := range podListed {
		if !hasPod[id] {
			nNewPods++
		}
	}
	verifAssert("C11.refresh.pods-added-exactly-the-listed-unknown", len(addedPods) == nNewPods)
	verifAssert("C11.refresh.pods-deleted-exactly-the-cached-unlisted", len(deletedPods) == len(hasPod)+nNewPods-len(podListed))

	// containers
	all := append([]verifC11Ctr{{"cN", ctrListed["cN"]}}, verifC11Ctrs...)
	nDel, nAdd := 0, 0
	for _, c := range all {
		old := cached[c.id]
		_, listed := ctrListed[c.id]
		// gone with its pod (RefreshPods) or not listed (RefreshContainers)
		wantPurged, wantDeleted, wantAdded := 0, 0, 0
		switch {
		case old != nil && !podListed[c.pod]:
			wantPurged = 1
		case old != nil && !listed:
			wantDeleted = 1
		case old == nil && listed:
			wantAdded = 1
		}
		nDel += wantPurged + wantDeleted
		nAdd += wantAdded
		verifAssert("C11.refresh.containers-of-unlisted-pod-purged-with-it", verifC11Count(purged, c.id) == wantPurged)
		verifAssert("C11.refresh.deleted-exactly-the-cached-unlisted", verifC11Count(deleted, c.id) == wantDeleted)
		verifAssert("C11.refresh.added-exactly-the-listed-unknown", verifC11Count(added, c.id) == wantAdded)
		now, ok := cch.LookupContainer(c.id)
		verifAssert("C11.refresh.cached-containers-are-the-listed-containers", ok == listed)
		if old != nil {
			if wantPurged+wantDeleted == 1 {
				verifCover("stale-container-removed")
				verifAssert("C11.refresh.removed-container-marked-stale", old.GetState() == ContainerStateStale)
			} else {
				verifCover("listed-container-kept")
				verifAssert("C11.refresh.listed-known-container-stays", ok && now == Container(old) && old.GetState() == ContainerStateRunning)
			}
		}
		if wantAdded == 1 {
			verifCover("new-container-added")
		}
	}
	verifAssert("C11.refresh.deleted-exactly-the-cached-unlisted", len(purged)+len(deleted) == nDel)
	verifAssert("C11.refresh.added-exactly-the-listed-unknown", len(added) == nAdd)
	verifAssert("C11.refresh.cached-containers-are-the-listed-containers", len(cch.GetContainers()) == len(ctrListed))
}
