//go:build verif

package cpuallocator

// C08: CPU allocator contract — exact count, subset, set bookkeeping,
// determinism. The allocator is the real one, created by the real
// NewCPUAllocator (topology cache discovery included) over a fake machine
// built by the sysfs overlay constructor. The candidate set is a symbolic
// bit vector over the machine's CPUs, the count a symbolic int.

import (
	"github.com/containers/nri-plugins/pkg/sysfs"
	"github.com/containers/nri-plugins/pkg/utils/cpuset"
)

// verifTopology returns fake machine k and its CPU count.
//
//	0: 1 package x 2 cores x 2 threads                       (4 CPUs)
//	1: 2 packages x 2 cores x 2 threads, 2 NUMA nodes         (8 CPUs)
//	2: 1 package, 2 L2 cache groups of 2 cores x 2 threads    (8 CPUs)
//	3: hybrid: 2 P-cores x 2 threads + 4 E-cores in 2 clusters (8 CPUs)
//	4: 1 package x 4 cores x 2 threads, two base-frequency bins (8 CPUs)
//	6: 1 package x 3 cores x 2 threads with one thread offline (6 CPUs)
//	5: 1 package, 8 single-thread cores, 4 L2 cache groups of 2 cores (8 CPUs):
//	   requests that take an idle group and then exactly the rest of a used one
func verifTopology(k int) (sysfs.System, int) {
	var cpus []sysfs.VerifCPU
	nodes := []sysfs.VerifNode{{ID: 0, Pkg: 0, MemType: sysfs.MemoryTypeDRAM, Normal: true, Distance: []int{10}}}
	P, E := sysfs.PerformanceCore, sysfs.EfficientCore
	switch k {
	case 0:
		for id := 0; id < 4; id++ {
			cpus = append(cpus, sysfs.VerifCPU{ID: id, Core: id / 2, Cluster: id / 2, Kind: P, EPP: sysfs.EPPUnknown, CacheGroup: -1})
		}
	case 1:
		for id := 0; id < 8; id++ {
			cpus = append(cpus, sysfs.VerifCPU{ID: id, Pkg: id / 4, Node: id / 4, Core: (id % 4) / 2, Cluster: (id % 4) / 2, Kind: P, EPP: sysfs.EPPUnknown, CacheGroup: -1})
		}
		nodes = []sysfs.VerifNode{
			{ID: 0, Pkg: 0, MemType: sysfs.MemoryTypeDRAM, Normal: true, Distance: []int{10, 21}},
			{ID: 1, Pkg: 1, MemType: sysfs.MemoryTypeDRAM, Normal: true, Distance: []int{21, 10}},
		}
	case 2:
		for id := 0; id < 8; id++ {
			cpus = append(cpus, sysfs.VerifCPU{ID: id, Core: id / 2, Cluster: id / 2, Kind: P, EPP: sysfs.EPPUnknown, CacheGroup: id / 4})
		}
	case 3:
		for id := 0; id < 4; id++ { // P-cores with hyperthreads: each core is its own cluster
			cpus = append(cpus, sysfs.VerifCPU{ID: id, Core: id / 2, Cluster: id / 2, Kind: P, EPP: sysfs.EPPUnknown, CacheGroup: -1})
		}
		for id := 4; id < 8; id++ { // E-cores: clusters of 2
			cpus = append(cpus, sysfs.VerifCPU{ID: id, Core: id, Cluster: 2 + (id-4)/2, Kind: E, EPP: sysfs.EPPUnknown, CacheGroup: -1})
		}
	case 5:
		for id := 0; id < 8; id++ {
			cpus = append(cpus, sysfs.VerifCPU{ID: id, Core: id, Cluster: id / 2, Kind: P, EPP: sysfs.EPPUnknown, CacheGroup: id / 2})
		}
	case 6: // 1 package x 3 cores x 2 threads, CPU 5 offline (its sibling 4 stays usable)
		for id := 0; id < 6; id++ {
			cpus = append(cpus, sysfs.VerifCPU{ID: id, Core: id / 2, Cluster: id / 2, Kind: P, EPP: sysfs.EPPUnknown, CacheGroup: -1, Offline: id == 5})
		}
	default:
		for id := 0; id < 8; id++ {
			f := uint64(2000000)
			if id >= 4 {
				f = 3000000
			}
			cpus = append(cpus, sysfs.VerifCPU{ID: id, Core: id / 2, Cluster: id / 2, Kind: P, BaseFreq: f, EPP: sysfs.EPPUnknown, CacheGroup: -1})
		}
	}
	return sysfs.VerifNewSystem(cpus, nodes), len(cpus)
}

func verifPickTopology() (sysfs.System, int) {
	mask := verifParam("topoMask", 1)
	var enabled []int
	for k := 0; k < 7; k++ {
		if mask&(1<<uint(k)) != 0 {
			enabled = append(enabled, k)
		}
	}
	return verifTopology(enabled[verifChoice("topo", len(enabled))])
}

var verifFlagSets = []AllocFlag{AllocDefault, 0, AllocIdlePackages, AllocIdleClusters, AllocCacheGroups, AllocIdleCores,
	AllocIdlePackages | AllocIdleCores, AllocCacheGroups | AllocIdleCores}

func verifOptions() []Option {
	prio := CPUPriority(verifChoice("prio", 4)) // High, Normal, Low, None
	flags := verifFlagSets[verifChoice("flags", verifParam("flagSets", 2))]
	return []Option{WithPriority(prio), WithAllocFlags(flags)}
}

// VerifC08Allocate: n <= |set| returns exactly n CPUs of the set and removes
// exactly those; n > |set| fails and leaves the set unchanged.
func VerifC08Allocate() {
	sys, n := verifPickTopology()
	ca := NewCPUAllocator(sys)
	from := verifNondetCPUSet("from", n)
	verifAssume(from.Intersection(sys.Offlined()).IsEmpty()) // candidates are online CPUs
	from0 := from.Clone()
	cnt := verifNondetInt("cnt")
	verifAssume(verifAnd(cnt >= 0, cnt <= n+1))
	res, err := ca.AllocateCpus(&from, cnt, verifOptions()...)
	if cnt <= from0.Size() {
		verifCover("allocate-enough")
		verifAssert("C08.alloc.no-error", err == nil)
		verifAssert("C08.alloc.exact-count", res.Size() == cnt)
		verifAssert("C08.alloc.subset", res.IsSubsetOf(from0))
		verifAssert("C08.alloc.removed-exactly", from.Equals(from0.Difference(res)))
	} else {
		verifCover("allocate-too-many")
		verifAssert("C08.alloc.too-many-fails", err != nil)
		verifAssert("C08.alloc.too-many-unchanged", from.Equals(from0))
		verifAssert("C08.alloc.too-many-empty", res.IsEmpty())
	}
}

// VerifC08Release: releasing n <= |set| CPUs leaves exactly n CPUs in the set
// (the ones to release) and returns the others.
func VerifC08Release() {
	sys, n := verifPickTopology()
	ca := NewCPUAllocator(sys)
	from := verifNondetCPUSet("from", n)
	verifAssume(from.Intersection(sys.Offlined()).IsEmpty()) // candidates are online CPUs
	from0 := from.Clone()
	cnt := verifNondetInt("cnt")
	verifAssume(verifAnd(cnt >= 0, cnt <= from0.Size()))
	kept, err := ca.ReleaseCpus(&from, cnt, verifOptions()...)
	verifCover("released")
	verifAssert("C08.release.no-error", err == nil)
	verifAssert("C08.release.exact-count", from.Size() == cnt)
	verifAssert("C08.release.partition", verifAnd(kept.Union(from).Equals(from0), kept.Intersection(from).IsEmpty()))
}

// VerifC08Deterministic: two allocators built from the same machine give the
// same answer for the same (symbolic) request.
func VerifC08Deterministic() {
	sys, n := verifPickTopology()
	ca1, ca2 := NewCPUAllocator(sys), NewCPUAllocator(sys)
	from1 := verifNondetCPUSet("from", n)
	verifAssume(from1.Intersection(sys.Offlined()).IsEmpty()) // candidates are online CPUs
	from2 := from1.Clone()
	cnt := verifNondetInt("cnt")
	verifAssume(verifAnd(cnt >= 0, cnt <= n+1))
	opts := verifOptions()
	r1, e1 := ca1.AllocateCpus(&from1, cnt, opts...)
	r2, e2 := ca2.AllocateCpus(&from2, cnt, opts...)
	verifCover("ran-twice")
	verifAssert("C08.deterministic.error", (e1 == nil) == (e2 == nil))
	verifAssert("C08.deterministic.result", verifAnd(r1.Equals(r2), from1.Equals(from2)))
}

var _ = cpuset.New
