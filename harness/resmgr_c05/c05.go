//go:build verif

package resmgr

// C05 (delivery layer): every resource decision reaches the runtime.
//
// Real code: nriPlugin.getPendingAdjustment, getPendingUpdates,
// setDefaultClasses, updateContainers (pkg/resmgr/nri.go:641-737) on a REAL
// cache (package cache: the seven Set*/Get*, getPendingRequest, markPending,
// GetPendingAdjustment/GetPendingUpdate, GetPending/ClearPending,
// GetPendingContainers, InsertMount, UpdateState). The cache is built by the
// exported test constructors of harness/resmgr_c05/cache/export.go (no file
// system); the NRI stub and the configuration object are fakes.
//
// What is modelled of the handlers: the statements between policy call and
// reply of CreateContainer (nri.go:431-455: InsertMount, UpdateState(Created),
// hooks, getPendingAdjustment + getPendingUpdates(container)), of
// UpdateContainer/Synchronize-like replies (getPendingUpdates(nil)), of
// StopContainer (nri.go:608-611: UpdateState(Exited), getPendingUpdates(
// container)) and the post-reconfiguration push (real updateContainers).
// The policy is "an arbitrary sequence of <= calls Set* calls on arbitrary
// containers with arbitrary values".

import (
	"github.com/containerd/nri/pkg/api"
	"github.com/containerd/nri/pkg/stub"
	v1 "k8s.io/api/core/v1"

	cfgapi "github.com/containers/nri-plugins/pkg/apis/config/v1alpha1"
	"github.com/containers/nri-plugins/pkg/resmgr/cache"
)

type verifC05Cfg struct {
	cfgapi.ResmgrConfig
	common cfgapi.CommonConfig
}

func (c *verifC05Cfg) CommonConfig() *cfgapi.CommonConfig { return &c.common }
func (c *verifC05Cfg) PolicyConfig() interface{}          { return nil }

// verifC05Stub: the runtime end of unsolicited updates.
type verifC05Stub struct {
	stub.Stub
	pushed [][]*api.ContainerUpdate
}

func (s *verifC05Stub) UpdateContainers(u []*api.ContainerUpdate) ([]*api.ContainerUpdate, error) {
	s.pushed = append(s.pushed, u)
	return nil, nil
}

// verifC05RT is what the runtime has been told about one container.
type verifC05RT struct {
	shares, period     uint64
	quota, limit, swap int64
	cpus, mems         string
}

func verifC05RTOf(c cache.Container) *verifC05RT {
	return &verifC05RT{
		shares: uint64(c.GetCPUShares()), quota: c.GetCPUQuota(), period: uint64(c.GetCPUPeriod()),
		cpus: c.GetCpusetCpus(), mems: c.GetCpusetMems(),
		limit: c.GetMemoryLimit(), swap: c.GetMemorySwap(),
	}
}

// apply merges resources the way an NRI runtime does: only fields that are
// present change.
func (r *verifC05RT) apply(res *api.LinuxResources) {
	if res == nil {
		return
	}
	if cpu := res.Cpu; cpu != nil {
		if cpu.Shares != nil {
			r.shares = cpu.Shares.Value
		}
		if cpu.Quota != nil {
			r.quota = cpu.Quota.Value
		}
		if cpu.Period != nil {
			r.period = cpu.Period.Value
		}
		if cpu.Cpus != "" {
			r.cpus = cpu.Cpus
		}
		if cpu.Mems != "" {
			r.mems = cpu.Mems
		}
	}
	if mem := res.Memory; mem != nil {
		if mem.Limit != nil {
			r.limit = mem.Limit.Value
		}
		if mem.Swap != nil {
			r.swap = mem.Swap.Value
		}
	}
}

func (r *verifC05RT) equals(c cache.Container) bool {
	ok := int64(r.shares) == c.GetCPUShares()
	ok = verifAnd(ok, r.quota == c.GetCPUQuota())
	ok = verifAnd(ok, int64(r.period) == c.GetCPUPeriod())
	ok = verifAnd(ok, r.cpus == c.GetCpusetCpus())
	ok = verifAnd(ok, r.mems == c.GetCpusetMems())
	ok = verifAnd(ok, r.limit == c.GetMemoryLimit())
	ok = verifAnd(ok, r.swap == c.GetMemorySwap())
	return ok
}

func verifC05String(name string) string {
	b := []byte{verifNondetUint8(name + ".b0"), verifNondetUint8(name + ".b1"), verifNondetUint8(name + ".b2")}
	return string(b)
}

func verifC05Set(c cache.Container, op int) {
	switch op {
	case 0:
		c.SetCPUShares(verifNondetInt64("shares"))
	case 1:
		c.SetCPUQuota(verifNondetInt64("quota"))
	case 2:
		c.SetCPUPeriod(verifNondetInt64("period"))
	case 3:
		c.SetCpusetCpus(verifC05String("cpus"))
	case 4:
		c.SetCpusetMems(verifC05String("mems"))
	case 5:
		c.SetMemoryLimit(verifNondetInt64("limit"))
	case 6:
		c.SetMemorySwap(verifNondetInt64("swap"))
	}
}

const (
	verifC05Create = iota // reply to CreateContainer(A)
	verifC05Other         // reply to another request (UpdateContainer, ...)
	verifC05Push          // unsolicited update after reconfiguration
	verifC05Stop          // reply to StopContainer(C)
	verifC05Modes
)

// VerifC05Drain: see the file comment. Cpuset values are never empty (an
// empty cpuset string cannot be conveyed by NRI, see VerifC05Pending in
// harness/cache_core/c05.go, parameter emptyCpuset).
func VerifC05Drain() {
	cch := cache.VerifNewCacheForHarness("/verif-cache")
	cache.VerifAddPod(cch, "pod0", v1.PodQOSBurstable)
	cfg := &verifC05Cfg{}
	if verifChoice("classes", 2) == 1 {
		// default RDT/block I/O classes: extra fields in adjustment/updates
		cfg.common.Control.RDT.Enable = true
		cfg.common.Control.RDT.UsePodQoSAsDefaultClass = true
		cfg.common.Control.BlockIO.Enable = true
		cfg.common.Control.BlockIO.UsePodQoSAsDefaultClass = true
	}
	stb := &verifC05Stub{}
	m := &resmgr{cfg: cfg, cache: cch}
	p := &nriPlugin{resmgr: m, stub: stb, byname: map[string]cache.Container{}}
	m.nri = p

	mode := verifChoice("mode", verifC05Modes)
	stateA := cache.ContainerStateCreated
	if mode == verifC05Create {
		stateA = cache.ContainerStateCreating
	}
	msgA := &api.Container{Id: "A", PodSandboxId: "pod0", Name: "ctr-A"}
	msgC := &api.Container{Id: "C", PodSandboxId: "pod0", Name: "ctr-C"}
	a := cache.VerifAddContainer(cch, "A", "pod0", stateA, &api.LinuxResources{
		Cpu:    &api.LinuxCPU{Shares: api.UInt64(uint64(2)), Quota: api.Int64(int64(0)), Period: api.UInt64(uint64(100000))},
		Memory: &api.LinuxMemory{Limit: api.Int64(int64(1 << 30))},
	})
	b := cache.VerifAddContainer(cch, "B", "pod0", cache.ContainerStateCreated, nil)
	c := cache.VerifAddContainer(cch, "C", "pod0", cache.ContainerStateRunning, &api.LinuxResources{
		Cpu: &api.LinuxCPU{Shares: api.UInt64(uint64(1024)), Cpus: "0-3", Mems: "0"},
	})
	ctrs := []cache.Container{a, b, c}
	rt := map[string]*verifC05RT{}
	for _, x := range ctrs {
		rt[x.GetID()] = verifC05RTOf(x)
	}

	n := verifParam("calls", 2)
	finishAt := n
	if mode == verifC05Create && n > 0 && verifParam("hooks", 1) == 1 {
		finishAt = n - verifChoice("finishBefore", 2)
	}
	finishCreate := func() {
		a.InsertMount(&cache.Mount{Destination: "/.nri-resource-policy", Source: cch.ContainerDirectory("A"), Type: "bind"})
		a.UpdateState(cache.ContainerStateCreated)
	}
	targets := 3
	if mode == verifC05Stop {
		// invariant of this layer: the policy does not change the container it
		// is releasing (ReleaseResources(C) precedes UpdateState(Exited))
		targets = 2
	}
	var any [3]bool
	for k := 0; k < n; k++ {
		if mode == verifC05Create && k == finishAt {
			finishCreate()
		}
		t := verifChoice("target", targets)
		verifC05Set(ctrs[t], verifChoice("op", 7))
		any[t] = true
	}
	if mode == verifC05Create && finishAt == n {
		finishCreate()
	}

	// ---- build the reply with the real functions
	var adjust *api.ContainerAdjustment
	var updates []*api.ContainerUpdate
	switch mode {
	case verifC05Create:
		verifCover("create-reply")
		adjust = p.getPendingAdjustment(msgA)
		updates = p.getPendingUpdates(msgA)
		verifAssert("C05.adjustment-present", adjust != nil)
		if adjust == nil {
			return
		}
		verifAssert("C05.adjustment-has-mount", len(adjust.Mounts) == 1)
		rt["A"].apply(adjust.GetLinux().GetResources())
	case verifC05Other:
		verifCover("other-reply")
		updates = p.getPendingUpdates(nil)
	case verifC05Push:
		verifCover("reconfiguration-push")
		err := p.updateContainers()
		verifAssert("C05.push-succeeds", err == nil && len(stb.pushed) == 1)
		if len(stb.pushed) != 1 {
			return
		}
		updates = stb.pushed[0]
	case verifC05Stop:
		verifCover("stop-reply")
		c.UpdateState(cache.ContainerStateExited)
		updates = p.getPendingUpdates(msgC)
	}

	count := map[string]int{}
	for _, u := range updates {
		verifCover("update-sent")
		id := u.GetContainerId()
		count[id]++
		var target cache.Container
		for _, x := range ctrs {
			if x.GetID() == id {
				target = x
			}
		}
		verifAssert("C05.update-addresses-live-container", target != nil)
		if target == nil {
			continue
		}
		st := target.GetState()
		verifAssert("C05.update-addresses-live-container", st != cache.ContainerStateExited && st != cache.ContainerStateStale)
		verifAssert("C05.no-update-for-container-being-created", !(mode == verifC05Create && id == "A"))
		rt[id].apply(u.GetLinux().GetResources())
	}
	if len(updates) >= 2 {
		verifCover("two-updates-in-one-reply")
	}
	for _, x := range ctrs {
		verifAssert("C05.at-most-one-update-per-container", count[x.GetID()] <= 1)
	}

	// ---- after the reply
	verifAssert("C05.nothing-pending", len(cch.GetPendingContainers()) == 0)
	for _, x := range ctrs {
		verifAssert("C05.nothing-pending", !cache.VerifHasPendingRequest(x) && len(x.GetPending()) == 0)
		verifAssert("C05.runtime-equals-cache", rt[x.GetID()].equals(x))
	}
	_ = any
}
