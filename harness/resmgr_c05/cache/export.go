//go:build verif

package cache

// Exported test constructors for the C05 drain harness in package resmgr
// (harness/resmgr_c05/c05.go), injected into pkg/resmgr/cache by overlay
// together with that harness. Same construction as harness/cache_core/
// common.go: a real *cache as NewCache builds it minus NewCache's file-system
// prefix (checkPerm, mkdirAll, Load); pods and containers as createPod/
// createContainer build them minus topology hint generation (sysfs) and Save.

import (
	nri "github.com/containerd/nri/pkg/api"
	v1 "k8s.io/api/core/v1"
)

func VerifNewCacheForHarness(dir string) Cache {
	return &cache{
		filePath:   dir + "/cache",
		dataDir:    dir + "/containers",
		Pods:       make(map[string]*pod),
		Containers: make(map[string]*container),
		NextID:     1,
		policyData: make(map[string]interface{}),
		PolicyJSON: make(map[string]string),
		implicit:   make(map[string]ImplicitAffinity),
	}
}

func VerifAddPod(c Cache, id string, qos v1.PodQOSClass) Pod {
	cch := c.(*cache)
	p := &pod{
		cache:    cch,
		Pod:      &nri.PodSandbox{Id: id, Name: "pod-" + id, Uid: "uid-" + id, Namespace: "default"},
		QOSClass: qos,
	}
	cch.Pods[id] = p
	return p
}

// VerifAddContainer inserts a container in the given state; res == nil
// leaves Ctr.Linux nil.
func VerifAddContainer(c Cache, id, podID string, state ContainerState, res *nri.LinuxResources) Container {
	cch := c.(*cache)
	ctr := &nri.Container{Id: id, PodSandboxId: podID, Name: "ctr-" + id, State: state}
	if res != nil {
		ctr.Linux = &nri.LinuxContainer{Resources: res}
	}
	x := &container{cache: cch, Ctr: ctr, Tags: make(map[string]string)}
	cch.Containers[id] = x
	return x
}

// VerifHasPendingRequest reports whether an adjustment/update is still
// queued in the container.
func VerifHasPendingRequest(c Container) bool { return c.(*container).request != nil }
