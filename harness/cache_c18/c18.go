//go:build verif

package cache

// C18: effective annotations in the resource-policy cache:
// container-specific beats pod-wide beats bare key; annotations addressed to
// other containers have no effect.
// Real code: pod.GetEffectiveAnnotation, container.GetEffectiveAnnotation
// (container.GetPod, container.GetName, container.GetPodID).

import (
	"strconv"

	nri "github.com/containerd/nri/pkg/api"
)

var verifC18Keys = []string{
	"memory-type.resource-policy.nri.io",
	"k",
}

// verifBytes returns a string of exactly n solver-chosen bytes.
func verifBytes(name string, n int) string {
	b := make([]byte, n)
	for i := range b {
		b[i] = verifNondetUint8(name + ".b" + strconv.Itoa(i))
	}
	return string(b)
}

// VerifC18Cache: an annotation map holding a solver-chosen subset of
// {key/container.<name>, key/container.<other>, key/pod, key}; name and other
// are arbitrary byte strings (name <= nameLen bytes, other <= otherLen bytes,
// other != name: so prefixes, suffixes, empty names and names containing
// '/', '.' or "pod" all occur); values are arbitrary byte strings of valLen
// bytes. The value resolved for container `name` through the pod and through
// a cached container of that pod is the first present of (container-specific
// for name, pod-wide, bare); a container whose pod is not cached resolves
// nothing.
func VerifC18Cache() {
	key := verifC18Keys[verifChoice("key", len(verifC18Keys))]
	name := verifNondetString("name", verifParam("nameLen", 2))
	other := verifNondetString("other", verifParam("otherLen", 3))
	verifAssume(name != other)
	present := verifChoice("present", 16)
	vlen := verifParam("valLen", 2)

	const (
		hasName = 1 << iota
		hasOther
		hasPod
		hasBare
	)

	ann := map[string]string{}
	var vName, vOther, vPod, vBare string
	if present&hasOther != 0 {
		vOther = verifBytes("v.other", vlen)
		ann[key+"/container."+other] = vOther
	}
	if present&hasBare != 0 {
		vBare = verifBytes("v.bare", vlen)
		ann[key] = vBare
	}
	if present&hasName != 0 {
		vName = verifBytes("v.name", vlen)
		ann[key+"/container."+name] = vName
	}
	if present&hasPod != 0 {
		vPod = verifBytes("v.pod", vlen)
		ann[key+"/pod"] = vPod
	}
	verifMapOrder(ann)

	// reference resolution
	exp, expOK := "", true
	switch {
	case present&hasName != 0:
		exp = vName
		verifCover("container-specific")
	case present&hasPod != 0:
		exp = vPod
		verifCover("pod-wide")
	case present&hasBare != 0:
		exp = vBare
		verifCover("bare-key")
	default:
		expOK = false
		verifCover("unset")
	}

	cch := &cache{Pods: map[string]*pod{}, Containers: map[string]*container{}}
	p := &pod{cache: cch, Pod: &nri.PodSandbox{Id: "pod0", Annotations: ann}}
	cch.Pods["pod0"] = p

	got, ok := p.GetEffectiveAnnotation(key, name)
	verifAssert("C18.cache.pod.present", ok == expOK)
	verifAssert("C18.cache.pod.value", got == exp)

	c := &container{cache: cch, Ctr: &nri.Container{Id: "ctr0", PodSandboxId: "pod0", Name: name}}
	cch.Containers["ctr0"] = c
	got, ok = c.GetEffectiveAnnotation(key)
	verifAssert("C18.cache.container.present", ok == expOK)
	verifAssert("C18.cache.container.value", got == exp)

	// the same annotations seen from container `other`: the entry for `name`
	// is the one without effect
	expO, expOOK := "", true
	switch {
	case present&hasOther != 0:
		expO = vOther
	case present&hasPod != 0:
		expO = vPod
	case present&hasBare != 0:
		expO = vBare
	default:
		expOOK = false
	}
	got, ok = p.GetEffectiveAnnotation(key, other)
	verifAssert("C18.cache.other.present", ok == expOOK)
	verifAssert("C18.cache.other.value", got == expO)

	// a container of a pod the cache does not know resolves nothing
	orphan := &container{cache: cch, Ctr: &nri.Container{Id: "ctr1", PodSandboxId: "gone", Name: name}}
	got, ok = orphan.GetEffectiveAnnotation(key)
	verifAssert("C18.cache.orphan", !ok && got == "")
}
