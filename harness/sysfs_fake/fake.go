//go:build verif

package sysfs

// Overlay constructor: builds a REAL *system (the type behind sysfs.System)
// from tables, with no file I/O. Packages are derived by the real
// discoverPackages(). Used by the cpuallocator, topology-aware and balloons
// harnesses so that the real accessor/filter/closest-node code is executed.

import (
	"strconv"

	idset "github.com/intel/goresctrl/pkg/utils"
)

// VerifCPU describes one logical CPU of a fake machine.
type VerifCPU struct {
	ID, Pkg, Die, Cluster, Node, Core int
	Kind                              CoreKind
	Isolated                          bool
	Offline                           bool
	BaseFreq                          uint64
	EPP                               EPP
	CacheGroup                        int // CPUs with equal non-negative CacheGroup share an L2 cache
}

// VerifNode describes one NUMA node of a fake machine.
type VerifNode struct {
	ID, Pkg, Die int
	MemType      MemoryType
	Normal       bool
	Distance     []int
}

// VerifNewSystem builds a System from the given tables.
func VerifNewSystem(cpus []VerifCPU, nodes []VerifNode) System {
	sys := &system{
		Logger:       log,
		cpus:         make(map[idset.ID]*cpu),
		nodes:        make(map[idset.ID]*node),
		possibleCPUs: idset.NewIDSet(),
		presentCPUs:  idset.NewIDSet(),
		onlineCPUs:   idset.NewIDSet(),
		isolatedCPUs: idset.NewIDSet(),
		coreKindCPUs: make(map[CoreKind]idset.IDSet),
	}
	type coreKey struct{ pkg, die, core int }
	threads := map[coreKey]idset.IDSet{}
	groups := map[int]idset.IDSet{}
	pkgCPUs := map[int]idset.IDSet{}
	hasGroups := false
	for _, c := range cpus {
		k := coreKey{c.Pkg, c.Die, c.Core}
		if threads[k] == nil {
			threads[k] = idset.NewIDSet()
		}
		threads[k].Add(c.ID)
		if pkgCPUs[c.Pkg] == nil {
			pkgCPUs[c.Pkg] = idset.NewIDSet()
		}
		pkgCPUs[c.Pkg].Add(c.ID)
		if c.CacheGroup >= 0 {
			hasGroups = true
			if groups[c.CacheGroup] == nil {
				groups[c.CacheGroup] = idset.NewIDSet()
			}
			groups[c.CacheGroup].Add(c.ID)
		}
	}
	kinds := map[CoreKind]bool{}
	for _, c := range cpus {
		cc := &cpu{
			id: c.ID, pkg: c.Pkg, die: c.Die, cluster: c.Cluster, node: c.Node, core: c.Core,
			threads: threads[coreKey{c.Pkg, c.Die, c.Core}], baseFreq: c.BaseFreq, epp: c.EPP,
			online: !c.Offline, isolated: c.Isolated, sstClos: -1, coreKind: c.Kind,
		}
		if hasGroups && c.CacheGroup >= 0 {
			cc.caches = []*Cache{
				{id: c.Core, level: 1, kind: DataCache, size: 32 << 10, cpus: cc.threads},
				{id: c.CacheGroup, level: 2, kind: UnifiedCache, size: 2 << 20, cpus: groups[c.CacheGroup]},
				{id: c.Pkg, level: 3, kind: UnifiedCache, size: 32 << 20, cpus: pkgCPUs[c.Pkg]},
			}
		}
		sys.cpus[c.ID] = cc
		sys.possibleCPUs.Add(c.ID)
		sys.presentCPUs.Add(c.ID)
		if !c.Offline {
			sys.onlineCPUs.Add(c.ID)
		}
		if c.Isolated {
			sys.isolatedCPUs.Add(c.ID)
		}
		kinds[c.Kind] = true
		n := threads[coreKey{c.Pkg, c.Die, c.Core}].Size()
		if sys.minThreads == 0 || n < sys.minThreads {
			sys.minThreads = n
		}
		if n > sys.maxThreads {
			sys.maxThreads = n
		}
	}
	// core kinds the way discovery records them (a non-hybrid machine has a
	// single kind holding every online CPU)
	for _, c := range cpus {
		if c.Offline {
			continue
		}
		if sys.coreKindCPUs[c.Kind] == nil {
			sys.coreKindCPUs[c.Kind] = idset.NewIDSet()
		}
		sys.coreKindCPUs[c.Kind].Add(c.ID)
	}
	for _, n := range nodes {
		nn := &node{id: n.ID, pkg: n.Pkg, die: n.Die, cpus: idset.NewIDSet(), memoryType: n.MemType,
			normalMem: n.Normal, distance: n.Distance}
		for _, c := range cpus {
			if c.Node == n.ID {
				nn.cpus.Add(c.ID)
			}
		}
		sys.nodes[n.ID] = nn
	}
	if err := sys.discoverPackages(); err != nil {
		panic(err)
	}
	return sys
}

// VerifSetNodePaths points every NUMA node of a system built by VerifNewSystem
// at <root>/node<id>, so that the real MemoryInfo() reads <root>/node<id>/meminfo
// (real files natively; the engine's file-system model under symbolic execution).
func VerifSetNodePaths(s System, root string) {
	sys := s.(*system)
	for id, n := range sys.nodes {
		n.path = root + "/node" + strconv.Itoa(id)
	}
}
