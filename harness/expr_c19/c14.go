//go:build verif

package resmgr

// C14 (annotation values cannot crash a plugin), expression part: affinity and
// match expressions come from pod annotations and configuration; for ANY short
// key string, operator and value list, Validate returns (nil or an error) and
// never panics, and an expression it accepts evaluates without panicking.

var verifC14Ops = []Operator{Equals, NotEqual, In, NotIn, Exists, NotExist, AlwaysTrue, Matches, MatchesNot, MatchesAny, MatchesNone, Operator("Bogus")}

func VerifC14ExprKeys() {
	key := verifNondetStringOver("key", verifParam("keyLen", 3), ":a/,")
	op := verifC14Ops[verifChoice("op", len(verifC14Ops))]
	var values []string
	for i, n := 0, verifChoice("nvalues", 3); i < n; i++ {
		values = append(values, []string{"a", "*"}[i%2])
	}
	e := &Expression{Key: key, Op: op, Values: values}
	err := e.Validate()
	verifCover("expr-validated")
	if err == nil {
		verifCover("expr-accepted")
		subj := verifNewSubject(1)
		e.Evaluate(subj)
		verifCover("expr-evaluated")
	}
}
