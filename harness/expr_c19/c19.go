//go:build verif

package resmgr

// C19 (expression part): container match expressions follow their documented
// operator semantics.
//
// Real code: (*Expression).Validate/validateKey/Evaluate, KeyValue, splitKeys,
// validSeparator, ResolveRef (and path.Clean, strings.Cut/Split/Join/TrimLeft,
// path/filepath.Match from their real SSA).
//
// The subject is a harness-side Evaluable shaped like the cache's
// container/pod pair: a container has name/namespace/qosclass/id scalars,
// labels and tags maps and a pod; a pod has scalars and labels, no tags and no
// pod. Unknown keys answer with an error value, like the real ones do.
// Subject strings are generated lazily (only what the expression key actually
// looks up becomes a symbolic string), memoised per subject.

import "errors"

type verifSubj struct {
	kind   string // "ctr" or "pod": prefix of the value names
	isPod  bool
	podSet bool // pod presence decided (lazily, on the first lookup of "pod")
	maxLen int  // bound on the length of the symbolic scalars; 0: constants
	pod    *verifSubj
	strs   map[string]string
	labels map[string]string
	tags   map[string]string
}

func verifValueAlphabet() string {
	if verifParam("alpha", 0) >= 1 {
		return "ab/"
	}
	return "ab"
}

func verifPatternAlphabet() string {
	switch verifParam("alpha", 0) {
	case 0:
		return "ab*?"
	case 1:
		return "ab*?[]"
	case 3:
		return "ab*?[" // '[' without ']' makes malformed patterns
	}
	return "ab*?[]\\-^"
}

// str returns the memoised symbolic scalar `field` of the subject.
func (s *verifSubj) str(field string) string {
	if v, ok := s.strs[field]; ok {
		return v
	}
	v := "ab"
	if s.maxLen > 0 {
		v = verifNondetStringOver(s.kind+"."+field, s.maxLen, verifValueAlphabet())
	}
	s.strs[field] = v
	return v
}

// strMap: entry "a" is absent or a symbolic string, "a/b" (a key with a slash,
// like io.kubernetes/name style label keys) and "z" are constants.
func (s *verifSubj) strMap(field string) map[string]string {
	m := map[string]string{"a/b": "ab", "z": "b"}
	if verifChoice(s.kind+"."+field+".has-a", 2) == 1 {
		m["a"] = s.str(field + ".a")
	}
	return m
}

func (s *verifSubj) EvalKey(key string) interface{} {
	switch key {
	case KeyName, KeyNamespace, KeyQOSClass, KeyID:
		return s.str(key)
	case KeyUID:
		if s.isPod {
			return s.str(key)
		}
	case KeyLabels:
		if s.labels == nil {
			s.labels = s.strMap("labels")
		}
		return s.labels
	case KeyTags:
		if !s.isPod {
			if s.tags == nil {
				s.tags = s.strMap("tags")
			}
			return s.tags
		}
	case KeyPod:
		// a container whose pod cannot be found answers "pod" with an error
		if !s.isPod && !s.podSet {
			s.podSet = true
			if verifChoice("has-pod", 2) == 1 {
				s.pod = &verifSubj{kind: "pod", isPod: true, maxLen: s.maxLen, strs: map[string]string{}}
			}
		}
		if s.pod != nil {
			return s.pod
		}
	}
	return errors.New("subject cannot evaluate key")
}

func (s *verifSubj) EvalRef(key string) (string, bool) { return KeyValue(key, s) }
func (s *verifSubj) String() string                   { return s.kind }

func verifNewSubject(maxLen int) *verifSubj {
	return &verifSubj{kind: "ctr", maxLen: maxLen, strs: map[string]string{}}
}

// keys accepted by validation; the first few are the most diverse ones (the
// quick tier of VerifC19Duality takes a prefix)
var verifValidKeys = []string{
	"name",
	"pod/labels/a",
	"labels/a",
	"labels/none",
	"tags/a",
	"pod/name",
	"namespace",
	"labels/a/b",
	"pod/labels/a/b",
	"qosclass",
	"id",
	"pod/uid",
	"pod/tags/a",       // accepted by validation, pods have no tags
	"pod/pod/name",     // accepted by validation, pods have no pod
	"uid",              // accepted by validation, containers have no uid
	"/name",            // leading slashes are trimmed by validation, cleaned by lookup
	"labels/../name",   // accepted as a label key by validation; path.Clean makes it "name"
	"://labels/a/name", // invalid separators: simple form with the single sub-key "//labels/a/name"
}

var verifJointKeys = []string{
	":,-name,labels/a",
	":name:namespace",
	"::_pod/name:labels/none:name",
	":-,labels/none-tags/none",
}

var verifInvalidKeys = []string{
	"",
	"foo",
	"labels",
	"pod",
	"name/x",
	"pod/foo",
	"pod//name", // only leading slashes are trimmed by validation (lookup would path.Clean it)
	":ab",
	":,-name,foo",
	":x,namexnamespace", // invalid key separator: simple form with one unknown sub-key
}

// glob patterns that filepath.Match rejects (ErrBadPattern) or treats specially
var verifOddPatterns = []string{"[", "[a-", "a[", "\\", "[]a]", "[^a]", "a\\"}

var verifOpPairs = [][2]Operator{
	{In, NotIn},
	{Matches, MatchesNot},
	{MatchesAny, MatchesNone},
	{Exists, NotExist},
	{Equals, NotEqual},
	{AlwaysTrue, "Bogus"},
}

// VerifC19Duality: for every (valid) key shape, operator pair, value list (as
// many values as the operator admits, <= maxVals; glob patterns for the
// matching operators) and subject: the expression and its negated twin are
// accepted by validation, evaluate without panic, and In/NotIn,
// Matches/MatchesNot, MatchesAny/MatchesNone, Exists/NotExist evaluate to
// exact negations of each other; Exists is exactly "the key resolves".
func VerifC19Duality() {
	var keys []string
	nvalid := verifParam("validKeys", len(verifValidKeys))
	keys = append(keys, verifValidKeys[:nvalid]...)
	keys = append(keys, verifJointKeys[:verifParam("jointKeys", len(verifJointKeys))]...)
	k := verifChoice("key", len(keys))
	key := keys[k]
	// the value of a joint key is several scalars long: shorter scalars
	vlen := verifParam("vlen", 2)
	if k >= nvalid {
		vlen = verifParam("jvlen", 1)
	}
	subj := verifNewSubject(vlen)
	pair := verifChoice("pair", 5)
	nvals := 0
	switch pair {
	case 0, 2: // In/NotIn, MatchesAny/MatchesNone: any number of values
		nvals = verifChoice("nvals", verifParam("maxVals", 2)+1)
	case 1, 4: // Matches/MatchesNot, Equals/NotEqual: exactly one
		nvals = 1
	}
	var values []string
	for i := 0; i < nvals; i++ {
		if pair == 0 || pair == 4 {
			// equality operators: literal values (and the "*" wildcard)
			values = append(values, verifNondetStringOver("val", verifParam("vlen", 2), verifValueAlphabet()+"*"))
		} else {
			// glob patterns; the second and later ones bounded by plen2
			plen := verifParam("plen", 2)
			if i > 0 {
				plen = verifParam("plen2", plen)
			}
			if verifParam("constPatterns", 1) != 0 && verifChoice("pattern-kind", 2) == 1 {
				// malformed or escape-heavy globs, which the alphabet of the symbolic patterns may not reach
				values = append(values, verifOddPatterns[verifChoice("odd-pattern", len(verifOddPatterns))])
				verifCover("odd-pattern")
			} else {
				values = append(values, verifNondetStringOver("val", plen, verifPatternAlphabet()))
			}
		}
	}
	pos := &Expression{Key: key, Op: verifOpPairs[pair][0], Values: values}
	neg := &Expression{Key: key, Op: verifOpPairs[pair][1], Values: values}

	verifCover("built")
	verifAssert("C19.valid-accepted", verifAnd(pos.Validate() == nil, neg.Validate() == nil))
	rp := pos.Evaluate(subj) // a panic here is reported as finding `panic`
	rn := neg.Evaluate(subj)
	if pair < 4 {
		verifCover("negation")
		verifAssert("C19.negation", rp == !rn)
	}
	if pair == 3 {
		_, ok := KeyValue(key, subj)
		verifAssert("C19.exists-is-resolves", rp == ok)
	}
}

// VerifC19Validate: every key shape (valid, joint, invalid) x every operator
// (and an unknown one) x 0..2 (constant) values: validation treats an operator
// and its negation alike, and an expression accepted by Validate evaluates
// without panic (Values[0] of the single-value operators) on every subject.
func VerifC19Validate() {
	subj := verifNewSubject(0) // constant scalars; labels/tags/pod present or not
	var keys []string
	keys = append(keys, verifValidKeys...)
	keys = append(keys, verifJointKeys...)
	keys = append(keys, verifInvalidKeys...)
	k := verifChoice("key", len(keys))
	key := keys[k]
	wellFormed := k < len(verifValidKeys)+len(verifJointKeys)
	pair := verifChoice("pair", len(verifOpPairs))
	values := [][]string{nil, {}, {"a"}, {"*", "[a"}}[verifChoice("vals", 4)]
	pos := &Expression{Key: key, Op: verifOpPairs[pair][0], Values: values}
	neg := &Expression{Key: key, Op: verifOpPairs[pair][1], Values: values}
	errP, errN := pos.Validate(), neg.Validate()
	if pair < 5 {
		verifCover("validated")
		verifAssert("C19.validate-symmetric", (errP == nil) == (errN == nil))
	}
	if pair == 0 || pair == 2 {
		// set operators take any number of values: the verdict is the key's
		verifAssert("C19.validate-key-verdict", (errP == nil) == wellFormed)
	}
	if errP == nil {
		verifCover("accepted")
		pos.Evaluate(subj) // a panic here is reported as finding `panic`
	} else {
		verifCover("rejected")
	}
	if errN == nil {
		verifCover("accepted-neg")
		neg.Evaluate(subj)
	}
}

// valid separators (anything but letters, digits, '/' and '.')
var verifSeps = ",-:_ "

var verifSubKeys = []string{
	"name",
	"namespace",
	"labels/a",
	"labels/none",
	"pod/name",
	"pod/labels/a/b",
	"tags/a",
}

// VerifC19Joint: a joint key ":<ksep><vsep><k1><ksep><k2>[<ksep><k3>]" with
// valid separators evaluates to the values of its sub-keys (empty when a
// sub-key does not resolve) joined by <vsep>, and it exists iff any sub-key
// resolves; the simple form ":k1:k2" is the same as ":::k1:k2". The reference
// uses the real single-key lookup (ResolveRef) per sub-key.
func VerifC19Joint() {
	subj := verifNewSubject(verifParam("jvlen", 2))
	nsub := 2 + verifChoice("nsub", verifParam("maxSub", 3)-1)
	nk := verifParam("subKeys", len(verifSubKeys))
	var subs []string
	for i := 0; i < nsub; i++ {
		subs = append(subs, verifSubKeys[verifChoice("sub", nk)])
	}
	simple := verifChoice("simple", 2) == 1
	ksep, vsep := ":", ":"
	if !simple {
		ns := verifParam("seps", len(verifSeps))
		k := verifChoice("ksep", ns)
		v := verifChoice("vsep", ns)
		ksep, vsep = verifSeps[k:k+1], verifSeps[v:v+1]
	}
	list := subs[0]
	for _, s := range subs[1:] {
		list += ksep + s
	}
	key := ":" + ksep + vsep + list
	if simple {
		key = ":" + list
	}

	e := &Expression{Key: key, Op: Exists}
	verifCover("joint")
	verifAssert("C19.joint-valid", e.Validate() == nil)

	// reference: real single-key lookups, joined by vsep
	want, any := "", false
	for i, s := range subs {
		v, ok, _ := ResolveRef(subj, s)
		if i > 0 {
			want += vsep
		}
		want += v
		any = verifOr(any, ok)
	}
	got, ok := KeyValue(key, subj)
	verifAssert("C19.joint-value", got == want)
	verifAssert("C19.joint-exists", ok == any)
	if simple {
		got2, ok2 := KeyValue(":::"+list, subj)
		verifAssert("C19.joint-simple-form", verifAnd(got2 == got, ok2 == ok))
	}
	r, ok3 := subj.EvalRef(key)
	verifAssert("C19.joint-evalref", verifAnd(r == got, ok3 == ok))
}
