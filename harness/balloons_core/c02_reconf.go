//go:build verif

package balloons

import (
	"strconv"

	cfgapi "github.com/containers/nri-plugins/pkg/apis/config/v1alpha1/resmgr/policy/balloons"
)

// C02 over histories with an accepted reconfiguration: configure profile A,
// admit containers, Reconfigure to profile B of the same machine (an accepted,
// different configuration), then every C02 sentence must hold again for the
// new configuration.

// VerifC02Reconfigure: profile A, `prefix` fixed + `ops` solver-chosen
// admissions, Reconfigure(profile B), checkC02; then one more request and
// checkC02 again.
func VerifC02Reconfigure() {
	na := verifParam("profiles", len(verifProfiles))
	ia := verifParam("firstProfile", 0) + verifChoice("profile", na)
	cfgA, machine := verifConfigFor(verifProfiles[ia])
	w, err := verifNewPolicy(cfgA, machine)
	if err != nil {
		return
	}
	for k := 0; k < verifParam("prefix", 1); k++ {
		c := w.newContainerOf(4, 500)
		if err := w.p.AllocateResources(c); err != nil {
			delete(w.cache.containers, c.id)
			continue
		}
		w.member[len(w.ctrs)-1] = true
	}
	for k := 0; k < verifParam("ops", 1); k++ {
		c := w.newContainer(int64(verifParam("maxMilli", 2500)))
		if err := w.p.AllocateResources(c); err != nil {
			// a container whose creation failed is not in the cache
			delete(w.cache.containers, c.id)
			continue
		}
		w.member[len(w.ctrs)-1] = true
	}
	w.checkC02()

	// the new configuration: another profile of the same machine, or the same
	// profile with type a's CPU class dropped / changed
	var cfgB = cfgA
	switch kind := verifChoice("change", 3); kind {
	case 0:
		var same []int
		for i, pr := range verifProfiles {
			if pr.machine == verifProfiles[ia].machine && i != ia {
				same = append(same, i)
			}
		}
		if len(same) == 0 {
			return
		}
		cfgB, _ = verifConfigFor(verifProfiles[same[verifChoice("profileB", len(same))]])
	case 1:
		cfgB = cfgA.DeepCopy()
		cfgB.BalloonDefs[0].CpuClass = ""
	case 2:
		cfgB = cfgA.DeepCopy()
		cfgB.BalloonDefs[0].MinCpus = cfgA.BalloonDefs[0].MinCpus + 1
		cfgB.BalloonDefs[0].CpuClass = "class-a2"
	}
	if err := w.p.Reconfigure(cfgB); err != nil {
		// rejected configurations are C13's subject
		verifCover("reconfigure-rejected")
		return
	}
	verifCover("reconfigured")
	w.cfg = cfgB
	// containers the new configuration could not place are unmanaged now
	for i, c := range w.ctrs {
		n, _ := w.balloonsListing(c.id)
		if w.member[i] && n == 0 {
			verifCover("container-not-placed-by-new-config")
			w.member[i] = false
		}
	}
	// what earlier refused requests left behind is gone with the old balloons
	w.abandoned, w.unshared, w.unsharedDeleted = w.abandoned.Difference(w.abandoned), w.unshared.Difference(w.unshared), w.unsharedDeleted.Difference(w.unsharedDeleted)
	w.checkC02()
	c := w.newContainer(int64(verifParam("maxMilli", 2500)))
	if err := w.p.AllocateResources(c); err == nil {
		w.member[len(w.ctrs)-1] = true
		verifCover("allocated-after-reconfigure")
		w.checkC02()
	}
}

// verifDumpJSON is the engine's model of utils.DumpJSON (yaml.Marshal, not
// executable symbolically) for the one use the balloons policy makes of its
// result: comparing the dumps of two option sets. It writes out every field
// the harness configurations set; two option sets get equal strings iff they
// agree on all of those. Natively the real DumpJSON runs.
func verifDumpJSON(v interface{}) string {
	o, ok := v.(*BalloonsOptions)
	if !ok || o == nil {
		return "<other>"
	}
	b2s := func(b bool) string {
		if b {
			return "t"
		}
		return "f"
	}
	p2s := func(p *bool) string {
		if p == nil {
			return "-"
		}
		return b2s(*p)
	}
	s := "pinCPU=" + p2s(o.PinCPU) + " pinMemory=" + p2s(o.PinMemory) + " idle=" + o.IdleCpuClass
	s += " avail=" + string(o.AvailableResources[cfgapi.CPU]) + " reserved=" + string(o.ReservedResources[cfgapi.CPU])
	s += " nsres=" + strconv.Itoa(len(o.ReservedPoolNamespaces)) + " loadClasses=" + strconv.Itoa(len(o.LoadClasses))
	for _, d := range o.BalloonDefs {
		s += " {" + d.Name + " class=" + d.CpuClass + " cpus=" + strconv.Itoa(d.MinCpus) + ".." + strconv.Itoa(d.MaxCpus) +
			" balloons=" + strconv.Itoa(d.MinBalloons) + ".." + strconv.Itoa(d.MaxBalloons) + " share=" + string(d.ShareIdleCpusInSame) +
			" new=" + b2s(d.PreferNewBalloons) + " spread=" + b2s(d.PreferSpreadingPods) + " perNs=" + b2s(d.PreferPerNamespaceBalloon) +
			" hideHT=" + p2s(d.HideHyperthreads) + " pinMemory=" + p2s(d.PinMemory) + " prio=" + string(d.AllocatorPriority) +
			" groupBy=" + d.GroupBy + " exprs=" + strconv.Itoa(len(d.MatchExpressions))
		for _, ns := range d.Namespaces {
			s += " ns:" + ns
		}
		for _, l := range d.Loads {
			s += " load:" + l
		}
		for _, m := range d.MemoryTypes {
			s += " mem:" + m
		}
		s += "}"
	}
	return s
}
