//go:build verif

package balloons

// Shared fixtures for the balloons harnesses (C02, C04, C09, C12, C13).
//
// The policy under test is the real one: it is set up the way
// (*balloons).Setup does it — real cpuallocator.NewCPUAllocator, real
// setConfig (fillBuiltinBalloonDefs, validateConfig, applyBalloonDef,
// newBalloon, resizeBalloon, shareIdleCpus, resetCpuClass/useCpuClass), real
// cpuTreeAllocator, real cpucontrol.Assign, real libmem allocator — over a
// fake machine built by the sysfs overlay constructor. Two steps of Setup
// cannot run (file I/O) and are replaced by table-driven equivalents:
//   - libmem.WithSystemNodes (reads meminfo)  -> libmem.WithNodes(tables)
//   - NewCpuTreeFromSystem (DiscoverSystem)   -> verifCpuTreeFromSystem(sys),
//     the same loops over the fake System.
// Requests enter through the public AllocateResources / ReleaseResources /
// Reconfigure. Pod, container and cache objects are fakes that record what
// the policy tells the runtime.

import (
	"fmt"
	"time"

	cfgapi "github.com/containers/nri-plugins/pkg/apis/config/v1alpha1/resmgr/policy/balloons"
	resmgr "github.com/containers/nri-plugins/pkg/apis/resmgr/v1alpha1"
	"github.com/containers/nri-plugins/pkg/cpuallocator"
	"github.com/containers/nri-plugins/pkg/resmgr/cache"
	cpucontrol "github.com/containers/nri-plugins/pkg/resmgr/control/cpu"
	libmem "github.com/containers/nri-plugins/pkg/resmgr/lib/memory"
	policyapi "github.com/containers/nri-plugins/pkg/resmgr/policy"
	system "github.com/containers/nri-plugins/pkg/sysfs"
	"github.com/containers/nri-plugins/pkg/topology"
	"github.com/containers/nri-plugins/pkg/utils/cpuset"
	v1 "k8s.io/api/core/v1"
	"k8s.io/apimachinery/pkg/api/resource"
)

// ---- fake pod / container / cache

type verifPod struct {
	cache.Pod
	name, namespace string
	annotations     map[string]string
	ctime           time.Time
}

func (p *verifPod) GetCtime() time.Time { return p.ctime }

func (p *verifPod) GetName() string                { return p.name }
func (p *verifPod) GetNamespace() string           { return p.namespace }
func (p *verifPod) GetQOSClass() v1.PodQOSClass    { return v1.PodQOSBurstable }
func (p *verifPod) GetID() string                  { return "pod-" + p.name }
func (p *verifPod) GetUID() string                 { return "uid-" + p.name }
func (p *verifPod) PrettyName() string             { return p.namespace + "/" + p.name }
func (p *verifPod) GetLabel(string) (string, bool) { return "", false }
func (p *verifPod) String() string                 { return p.name }
func (p *verifPod) GetEffectiveAnnotation(key, container string) (string, bool) {
	if v, ok := p.annotations[key+"/container."+container]; ok {
		return v, true
	}
	if v, ok := p.annotations[key+"/pod"]; ok {
		return v, true
	}
	v, ok := p.annotations[key]
	return v, ok
}

type verifContainer struct {
	cache.Container
	id, name string
	pod      *verifPod
	labels   map[string]string
	milliCPU int64 // CPU request in mCPU
	memLimit int64
	state    cache.ContainerState
	ctime    time.Time

	// what the policy told the runtime
	cpus      string
	cpusCalls int
	mems      string
	memsCalls int
	memsLast  string // argument of the last SetCpusetMems call
	shares    int64
	sharesSet bool
}

func (c *verifContainer) GetPod() (cache.Pod, bool)        { return c.pod, c.pod != nil }
func (c *verifContainer) GetCtime() time.Time              { return c.ctime }
func (c *verifContainer) GetID() string                    { return c.id }
func (c *verifContainer) GetPodID() string                 { return c.pod.GetID() }
func (c *verifContainer) GetName() string                  { return c.name }
func (c *verifContainer) GetNamespace() string             { return c.pod.namespace }
func (c *verifContainer) PrettyName() string               { return c.pod.name + "/" + c.name }
func (c *verifContainer) String() string                   { return c.PrettyName() }
func (c *verifContainer) GetState() cache.ContainerState   { return c.state }
func (c *verifContainer) GetQOSClass() v1.PodQOSClass      { return v1.PodQOSBurstable }
func (c *verifContainer) GetTopologyHints() topology.Hints { return topology.Hints{} }
func (c *verifContainer) GetEffectiveAnnotation(key string) (string, bool) {
	return c.pod.GetEffectiveAnnotation(key, c.name)
}
func (c *verifContainer) GetResourceUpdates() (v1.ResourceRequirements, bool) {
	return v1.ResourceRequirements{}, false
}
func (c *verifContainer) GetResourceRequirements() v1.ResourceRequirements {
	r := v1.ResourceRequirements{Requests: v1.ResourceList{}, Limits: v1.ResourceList{}}
	r.Requests[v1.ResourceCPU] = *resource.NewMilliQuantity(c.milliCPU, resource.DecimalSI)
	if c.memLimit > 0 {
		r.Limits[v1.ResourceMemory] = *resource.NewQuantity(c.memLimit, resource.BinarySI)
		r.Requests[v1.ResourceMemory] = *resource.NewQuantity(c.memLimit, resource.BinarySI)
	}
	return r
}
func (c *verifContainer) PreserveCpuResources() bool {
	v, ok := c.GetEffectiveAnnotation(cache.PreserveCpuKey)
	return ok && v == "true"
}
func (c *verifContainer) PreserveMemoryResources() bool {
	v, ok := c.GetEffectiveAnnotation(cache.PreserveMemoryKey)
	return ok && v == "true"
}
func (c *verifContainer) MemoryTypes() (libmem.TypeMask, error) { return 0, nil }
func (c *verifContainer) GetMemoryLimit() int64                 { return c.memLimit }
func (c *verifContainer) GetCpusetCpus() string                 { return c.cpus }
func (c *verifContainer) GetCpusetMems() string                 { return c.mems }
func (c *verifContainer) SetCpusetCpus(v string) {
	c.cpusCalls++
	// an empty cpuset.cpus in an NRI adjustment/update means "leave as is";
	// the cache records what it is told
	c.cpus = v
}
func (c *verifContainer) SetCpusetMems(v string) {
	c.memsCalls++
	c.memsLast = v
	if v == "" {
		// an empty cpuset.mems in an NRI adjustment/update means "leave as is"
		return
	}
	c.mems = v
}
func (c *verifContainer) SetCPUShares(v int64) { c.shares, c.sharesSet = v, true }

// expression subject (preserve rules, match expressions)
func (c *verifContainer) EvalKey(key string) interface{} {
	switch key {
	case resmgr.KeyName:
		return c.name
	case resmgr.KeyNamespace:
		return c.pod.namespace
	case resmgr.KeyLabels:
		return c.labels
	case resmgr.KeyID:
		return c.id
	}
	return fmt.Errorf("verifContainer cannot evaluate key %q", key)
}
func (c *verifContainer) EvalRef(key string) (string, bool) { return resmgr.KeyValue(key, c) }

// Expand is the real container's Expand (pkg/resmgr/cache/container.go:1124).
func (c *verifContainer) Expand(src string, mustResolve bool) (string, error) {
	return resmgr.Expand(src, c, mustResolve)
}

type verifCache struct {
	cache.Cache
	containers map[string]*verifContainer
	policy     map[string]interface{}
}

func (c *verifCache) LookupContainer(id string) (cache.Container, bool) {
	ctr, ok := c.containers[id]
	if !ok {
		return nil, false
	}
	return ctr, true
}
func (c *verifCache) LookupPod(id string) (cache.Pod, bool) {
	for _, k := range verifSortedKeys(c.containers) {
		if ctr := c.containers[k]; ctr.pod.GetID() == id {
			return ctr.pod, true
		}
	}
	return nil, false
}
func (c *verifCache) Save() error { return nil }

// policy entries the way the real cache keeps them once set: the stored object
// is handed back through Cacheable.Set (cache.setEntry)
func (c *verifCache) SetPolicyEntry(key string, obj interface{}) { c.policy[key] = obj }
func (c *verifCache) GetPolicyEntry(key string, ptr interface{}) bool {
	obj, ok := c.policy[key]
	if !ok {
		return false
	}
	ptr.(cache.Cacheable).Set(obj)
	return true
}
func (c *verifCache) GetContainers() []cache.Container {
	var out []cache.Container
	for _, k := range verifSortedKeys(c.containers) {
		out = append(out, c.containers[k])
	}
	return out
}

func verifSortedKeys(m map[string]*verifContainer) []string {
	var ks []string
	for k := range m {
		ks = append(ks, k)
	}
	for i := 1; i < len(ks); i++ {
		for j := i; j > 0 && ks[j] < ks[j-1]; j-- {
			ks[j], ks[j-1] = ks[j-1], ks[j]
		}
	}
	return ks
}

// ---- fake machines

// verifMachine returns machine k (every core has its own L2 cache).
//
//	0: 2 packages x 1 die x 1 NUMA node x 2 cores x 2 threads (8 CPUs)
//	1: 1 package x 2 NUMA nodes x 2 cores x 2 threads          (8 CPUs)
//	2: machine 0 with CPU 7 kernel-isolated
//	3: machine 0 with CPUs 6,7 kernel-isolated
func verifMachine(k int) (system.System, []*libmem.Node, int) {
	var cpus []system.VerifCPU
	var nodes []system.VerifNode
	P := system.PerformanceCore
	switch k {
	case 1:
		for id := 0; id < 8; id++ {
			cpus = append(cpus, system.VerifCPU{ID: id, Node: id / 4, Core: id / 2, Cluster: id / 2, Kind: P, EPP: system.EPPUnknown, CacheGroup: id / 2})
		}
		nodes = []system.VerifNode{
			{ID: 0, MemType: system.MemoryTypeDRAM, Normal: true, Distance: []int{10, 21}},
			{ID: 1, MemType: system.MemoryTypeDRAM, Normal: true, Distance: []int{21, 10}},
		}
	default:
		for id := 0; id < 8; id++ {
			iso := (k == 2 && id == 7) || (k == 3 && id >= 6)
			cpus = append(cpus, system.VerifCPU{ID: id, Pkg: id / 4, Node: id / 4, Core: id / 2, Cluster: id / 2, Kind: P, EPP: system.EPPUnknown, CacheGroup: id / 2, Isolated: iso})
		}
		nodes = []system.VerifNode{
			{ID: 0, Pkg: 0, MemType: system.MemoryTypeDRAM, Normal: true, Distance: []int{10, 21}},
			{ID: 1, Pkg: 1, MemType: system.MemoryTypeDRAM, Normal: true, Distance: []int{21, 10}},
		}
	}
	sys := system.VerifNewSystem(cpus, nodes)
	system.VerifShareCaches(sys)
	var mnodes []*libmem.Node
	for _, n := range nodes {
		mn, err := libmem.NewNode(n.ID, libmem.TypeForSysfs(n.MemType), int64(64)<<30, true, sys.Node(n.ID).CPUSet(), n.Distance)
		if err != nil {
			panic(err)
		}
		mnodes = append(mnodes, mn)
	}
	return sys, mnodes, len(cpus)
}

// verifCpuTreeFromSystem is NewCpuTreeFromSystem (cputree.go:257-316) with the
// System given instead of discovered; the L2 caches of a NUMA node are visited
// in order of first appearance instead of Go's map order.
func verifCpuTreeFromSystem(sys system.System) *cpuTreeNode {
	sysTree := NewCpuTree("system")
	sysTree.sys = sys
	sysTree.level = CPUTopologyLevelSystem
	for _, packageID := range sys.PackageIDs() {
		packageTree := NewCpuTree(fmt.Sprintf("p%d", packageID))
		packageTree.level = CPUTopologyLevelPackage
		cpuPackage := sys.Package(packageID)
		sysTree.AddChild(packageTree)
		for _, dieID := range cpuPackage.DieIDs() {
			dieTree := NewCpuTree(fmt.Sprintf("%sd%d", packageTree.name, dieID))
			dieTree.level = CPUTopologyLevelDie
			packageTree.AddChild(dieTree)
			for _, nodeID := range cpuPackage.DieNodeIDs(dieID) {
				nodeTree := NewCpuTree(fmt.Sprintf("%sn%d", dieTree.name, nodeID))
				nodeTree.level = CPUTopologyLevelNuma
				dieTree.AddChild(nodeTree)
				node := sys.Node(nodeID)
				var l2cs []*system.Cache
				for _, cpuID := range node.CPUSet().List() {
					for _, cache := range sys.CPU(cpuID).GetCachesByLevel(2) {
						seen := false
						for _, o := range l2cs {
							seen = seen || o == cache
						}
						if !seen {
							l2cs = append(l2cs, cache)
						}
					}
				}
				for _, cache := range l2cs {
					l2cTree := NewCpuTree(fmt.Sprintf("%s$%d", nodeTree.name, cache.ID()))
					l2cTree.level = CPUTopologyLevelL2Cache
					nodeTree.AddChild(l2cTree)
					threadsSeen := map[int]struct{}{}
					for _, cpuID := range cache.SharedCPUSet().List() {
						if _, alreadySeen := threadsSeen[cpuID]; alreadySeen {
							continue
						}
						cpu := sys.CPU(cpuID)
						coreTree := NewCpuTree(fmt.Sprintf("%scpu%d", nodeTree.name, cpuID))
						coreTree.level = CPUTopologyLevelCore
						l2cTree.AddChild(coreTree)
						for _, threadID := range cpu.ThreadCPUSet().List() {
							threadsSeen[threadID] = struct{}{}
							threadTree := NewCpuTree(fmt.Sprintf("%st%d", coreTree.name, threadID))
							threadTree.level = CPUTopologyLevelThread
							coreTree.AddChild(threadTree)
							threadTree.AddCpus(cpuset.New(threadID))
						}
					}
				}
			}
		}
	}
	return sysTree
}

// ---- the world

type verifWorld struct {
	p      *balloons
	cache  *verifCache
	sys    system.System
	ncpu   int
	cfg    *cfgapi.Config
	ctrs   []*verifContainer // containers ever created, by index
	member []bool            // ctrs[i] was admitted by AllocateResources and not released since
	// idle CPUs that a refused AllocateResources left with a non-idle class
	abandoned cpuset.CPUSet
	// idle CPUs that a refused AllocateResources removed from the shared idle CPUs of a balloon
	unshared cpuset.CPUSet
	// idle CPUs freed by the deletion of a balloon and not shared with the balloons in whose scope they are
	unsharedDeleted cpuset.CPUSet
	// Conjunctions, over all states checked so far, of the sub-claims that are
	// judged under their own labels. They are asserted once, at the end of the
	// history (assertSoftC02): an assertion that fails on every input of a path
	// ends the path, and must not keep the other assertions from being checked
	// on the rest of the history.
	softClassRefused, softScopeRefused, softScopeDeleted, softFitsCapped bool
}

// verifNewPolicy sets the policy up like Setup (see the file comment) with
// configuration cfg; the error is setConfig's.
func verifNewPolicy(cfg *cfgapi.Config, machine int) (*verifWorld, error) {
	sys, mnodes, ncpu := verifMachine(machine)
	c := &verifCache{containers: map[string]*verifContainer{}, policy: map[string]interface{}{}}
	p := &balloons{}
	p.options = &policyapi.BackendOptions{System: sys, Cache: c, Config: cfg}
	p.cch = c
	p.cpuAllocator = cpuallocator.NewCPUAllocator(sys)
	ma, err := libmem.NewAllocator(libmem.WithNodes(mnodes))
	if err != nil {
		panic(err)
	}
	p.memAllocator = ma
	p.cpuTree = verifCpuTreeFromSystem(sys)
	w := &verifWorld{p: p, cache: c, sys: sys, ncpu: ncpu, cfg: cfg, abandoned: cpuset.New(), unshared: cpuset.New(), unsharedDeleted: cpuset.New(),
		softClassRefused: true, softScopeRefused: true, softScopeDeleted: true, softFitsCapped: true}
	return w, p.setConfig(cfg.DeepCopy())
}

var verifShareLevels = []cfgapi.CPUTopologyLevel{
	cfgapi.CPUTopologyLevelUndefined, cfgapi.CPUTopologyLevelPackage, cfgapi.CPUTopologyLevelSystem,
	cfgapi.CPUTopologyLevelNuma, cfgapi.CPUTopologyLevelCore,
}

// verifProfile is one entry of the table of configurations used when the
// "profiles" parameter is set (quick tier): machine, available cpuset and the
// numbers of balloon type "a".
type verifProfile struct {
	machine                                    int
	available                                  bool // availableResources cpuset:0-6 instead of all CPUs
	minCpus, maxCpus, minBalloons, maxBalloons int
	share                                      cfgapi.CPUTopologyLevel
	preferNew, spreadPods, hideHT              bool
	explicitReserved                           bool // the built-in "reserved" type is written out in the configuration
	groupBy                                    string
}

var verifProfiles = []verifProfile{
	// pre-created fixed-size balloon sharing idle CPUs of its package
	{machine: 0, minCpus: 2, maxCpus: 2, minBalloons: 1, maxBalloons: 0, share: cfgapi.CPUTopologyLevelPackage},
	// purely dynamic type, nothing shared, 7 of 8 CPUs available
	{machine: 0, available: true},
	// up to two new-balloon-preferring instances of 1..2 CPUs, hidden hyperthreads, one kernel-isolated CPU
	{machine: 2, minCpus: 1, maxCpus: 2, maxBalloons: 2, share: cfgapi.CPUTopologyLevelPackage, preferNew: true, hideHT: true},
	// one pre-created single-CPU balloon sharing system-wide
	{machine: 0, maxCpus: 1, minBalloons: 1, maxBalloons: 1, share: cfgapi.CPUTopologyLevelSystem},
	// two pre-created balloons on a 2-NUMA-node package, sharing per NUMA node, pods spread
	{machine: 1, minCpus: 1, minBalloons: 2, maxBalloons: 2, share: cfgapi.CPUTopologyLevelNuma, spreadPods: true},
	// sharing per core, two kernel-isolated CPUs
	{machine: 3, minCpus: 1, maxCpus: 3, minBalloons: 1, maxBalloons: 0, share: cfgapi.CPUTopologyLevelCore},
	// up to two new-balloon-preferring instances with hidden hyperthreads sharing the idle CPUs of the whole system
	{machine: 0, minCpus: 1, maxCpus: 2, maxBalloons: 2, share: cfgapi.CPUTopologyLevelSystem, preferNew: true, hideHT: true},
	// the built-in reserved type defined explicitly (its omitted numbers are filled in by the policy)
	{machine: 0, minCpus: 1, maxCpus: 2, share: cfgapi.CPUTopologyLevelPackage, explicitReserved: true},
	// containers grouped by namespace into balloons of at most 2 CPUs
	{machine: 0, maxCpus: 2, groupBy: "${namespace}"},
}

// verifConfig builds a configuration with the user balloon types "a" (chosen by
// namespace ns-a or by annotation) and, if types >= 2, "b" (by annotation
// only; 1..2 CPUs, no pre-created instance, at most one, sharing the idle CPUs
// of its package); the implicit reserved (kube-system, reserved cpuset {0})
// and default types are added by the policy. The numbers of type "a" are
// solver-chosen: from the profile table if the parameter "profiles" is set,
// otherwise every combination within the per-tier ranges. Returns the
// configuration and the machine to run it on.
func verifConfig() (*cfgapi.Config, int) {
	if n := verifParam("profiles", 0); n > 0 {
		return verifConfigFor(verifProfiles[verifParam("firstProfile", 0)+verifChoice("profile", n)])
	}
	cfg, a := verifBaseConfig()
	machine := verifParam("machine", 0)
	a.MinCpus = verifChoice("a.minCpus", verifParam("minCpusN", 3))
	a.MaxCpus = verifChoice("a.maxCpus", verifParam("maxCpusN", 3))
	a.MinBalloons = verifChoice("a.minBalloons", verifParam("minBalloonsN", 2))
	a.MaxBalloons = verifChoice("a.maxBalloons", verifParam("maxBalloonsN", 3))
	a.ShareIdleCpusInSame = verifShareLevels[verifChoice("a.share", verifParam("shareLevels", 2))]
	a.PreferNewBalloons = verifChoice("a.preferNew", verifParam("preferNewN", 1)) == 1
	a.PreferSpreadingPods = verifChoice("a.spreadPods", verifParam("spreadPodsN", 1)) == 1
	verifFinishConfig(cfg, a, verifParam("available", 0) != 0)
	return cfg, machine
}

func verifBaseConfig() (*cfgapi.Config, *cfgapi.BalloonDef) {
	cfg := &cfgapi.Config{
		IdleCpuClass:      "idle",
		ReservedResources: cfgapi.Constraints{cfgapi.CPU: "cpuset:0"},
	}
	a := &cfgapi.BalloonDef{Name: "a", CpuClass: "class-a", Namespaces: []string{"ns-a"}, AllocatorPriority: cfgapi.PriorityNormal}
	return cfg, a
}

func verifFinishConfig(cfg *cfgapi.Config, a *cfgapi.BalloonDef, available bool) {
	if available {
		cfg.AvailableResources = cfgapi.Constraints{cfgapi.CPU: "cpuset:0-6"}
	}
	cfg.BalloonDefs = append(cfg.BalloonDefs, a)
	if verifParam("types", 2) >= 2 {
		b := &cfgapi.BalloonDef{Name: "b", CpuClass: "class-b", MinCpus: 1, MaxCpus: 2, MaxBalloons: 1,
			ShareIdleCpusInSame: verifShareLevels[verifParam("b.share", 1)], AllocatorPriority: cfgapi.PriorityNormal}
		cfg.BalloonDefs = append(cfg.BalloonDefs, b)
	}
}

// verifConfigFor builds the configuration of one profile of the table.
func verifConfigFor(pr verifProfile) (*cfgapi.Config, int) {
	cfg, a := verifBaseConfig()
	a.MinCpus, a.MaxCpus, a.MinBalloons, a.MaxBalloons = pr.minCpus, pr.maxCpus, pr.minBalloons, pr.maxBalloons
	a.ShareIdleCpusInSame, a.PreferNewBalloons, a.PreferSpreadingPods = pr.share, pr.preferNew, pr.spreadPods
	if pr.hideHT {
		hide := true
		a.HideHyperthreads = &hide
	}
	a.GroupBy = pr.groupBy
	verifFinishConfig(cfg, a, pr.available)
	if pr.explicitReserved {
		cfg.BalloonDefs = append([]*cfgapi.BalloonDef{{Name: "reserved", CpuClass: "class-reserved", Namespaces: []string{"kube-system"}}}, cfg.BalloonDefs...)
	}
	return cfg, pr.machine
}

// container kinds: how the balloon type of a new container is selected
var verifKinds = []struct{ namespace, annotation string }{
	{"default", ""},      // default type (no match)
	{"default", "b"},     // type b by annotation
	{"ns-a", ""},         // type a by namespace
	{"kube-system", ""},  // reserved type by namespace
	{"default", "a"},     // type a by annotation
	{"kube-system", "b"}, // annotation beats the reserved namespace
}

// newContainer creates container #k with solver-chosen kind (namespace and
// balloon annotation), pod (its own, or the pod of container 0: then the
// namespace is that pod's) and a symbolic CPU request of 0..maxMilli mCPU.
func (w *verifWorld) newContainer(maxMilli int64) *verifContainer {
	return w.newContainerOf(-1, maxMilli)
}

// newContainerOf: as newContainer; fixed >= 0 makes it a container of kind
// verifKinds[fixed] in its own pod requesting exactly maxMilli mCPU.
func (w *verifWorld) newContainerOf(fixed int, maxMilli int64) *verifContainer {
	k := len(w.ctrs)
	id := "c" + string(rune('0'+k))
	var kind struct{ namespace, annotation string }
	if fixed >= 0 {
		kind = verifKinds[fixed]
	} else {
		kind = verifKinds[verifChoice("kind", verifParam("kinds", len(verifKinds)))]
	}
	var pod *verifPod
	if fixed < 0 && k > 0 && verifParam("samePod", 1) != 0 && verifChoice("pod", 2) == 1 {
		pod = w.ctrs[0].pod
	} else {
		pod = &verifPod{name: "p" + id, annotations: map[string]string{}, namespace: kind.namespace, ctime: time.Unix(int64(1000+k), 0)}
	}
	if kind.annotation != "" {
		pod.annotations[balloonKey+"/container."+id] = kind.annotation
	}
	m := maxMilli
	if fixed < 0 {
		m = int64(verifNondetUint16("mcpu"))
		verifAssume(verifAnd(m >= 0, m <= maxMilli))
	}
	c := &verifContainer{id: id, name: id, pod: pod, milliCPU: m, state: cache.ContainerStateCreated, ctime: time.Unix(int64(1000+k), 0)}
	w.ctrs = append(w.ctrs, c)
	w.member = append(w.member, false)
	w.cache.containers[id] = c
	return c
}

// balloonsListing returns how many times container id is listed by balloons
// and the last balloon listing it.
func (w *verifWorld) balloonsListing(id string) (int, *Balloon) {
	n := 0
	var in *Balloon
	for _, bln := range w.p.balloons {
		for _, podID := range verifSortedPodIDs(bln.PodIDs) {
			for _, cid := range bln.PodIDs[podID] {
				if cid == id {
					n++
					in = bln
				}
			}
		}
	}
	return n, in
}

func verifSortedPodIDs(m map[string][]string) []string {
	var ks []string
	for k := range m {
		ks = append(ks, k)
	}
	for i := 1; i < len(ks); i++ {
		for j := i; j > 0 && ks[j] < ks[j-1]; j-- {
			ks[j], ks[j-1] = ks[j-1], ks[j]
		}
	}
	return ks
}

// pinned returns the cpuset the runtime was last told for c.
func (c *verifContainer) pinned() cpuset.CPUSet {
	if c.cpus == "" {
		return cpuset.New()
	}
	return cpuset.MustParse(c.cpus)
}

// classesOf returns the CPU classes recorded for a CPU by the real
// cpucontrol.Assign.
func (w *verifWorld) classesOf(cpu int) []string {
	return cpucontrol.VerifClassesOf(w.cache, cpu)
}
