//go:build verif

package balloons

// Balloons parts of C09 (no leaks), C12 (opt-outs honoured), C13
// (reconfiguration) and C04 (memory pinning follows the allocator), on the
// real policy through its public entry points.

import (
	cfgapi "github.com/containers/nri-plugins/pkg/apis/config/v1alpha1/resmgr/policy/balloons"
	resmgr "github.com/containers/nri-plugins/pkg/apis/resmgr/v1alpha1"
	"github.com/containers/nri-plugins/pkg/resmgr/cache"
	libmem "github.com/containers/nri-plugins/pkg/resmgr/lib/memory"
	"github.com/containers/nri-plugins/pkg/utils/cpuset"
)

func (w *verifWorld) libmemEmpty() bool {
	n := 0
	w.p.memAllocator.ForeachRequest(nil, func(*libmem.Request) bool { n++; return true })
	return n == 0
}

func (w *verifWorld) listedAnywhere(c *verifContainer) bool {
	n, _ := w.balloonsListing(c.id)
	return n > 0
}

// ---- C09

// VerifC09BalloonsQuiescence: after a history of allocations (some refused)
// every container is released, in an order whose first victim is
// solver-chosen. Then only the pre-created balloons remain (MinBalloons per
// type), each at its type's MinCpus, every other available CPU is free, no
// balloon lists a container, the memory allocator holds nothing. A released
// container is never listed again while the others are released.
func VerifC09BalloonsQuiescence() {
	cfg, machine := verifConfig()
	if verifParam("pinMemoryChoice", 1) != 0 {
		// memory pinning on, off for the whole policy, or off for balloon type a
		switch verifChoice("pinMemory", 3) {
		case 1:
			off := false
			cfg.PinMemory = &off
		case 2:
			off := false
			cfg.BalloonDefs[0].PinMemory = &off
		}
	}
	w, err := verifNewPolicy(cfg, machine)
	if err != nil {
		verifCover("config-rejected")
		return
	}
	pristineFree := w.p.freeCpus.Size()
	allocs := verifParam("allocs", 2)
	for k := 0; k < allocs; k++ {
		c := w.newContainer(int64(verifParam("maxMilli", 2500)))
		if err := w.p.AllocateResources(c); err != nil {
			verifCover("quiescence-allocate-refused")
		}
	}
	first := verifChoice("first", len(w.ctrs))
	order := []int{first}
	for i := range w.ctrs {
		if i != first {
			order = append(order, i)
		}
	}
	for n, i := range order {
		c := w.ctrs[i]
		c.state = cache.ContainerStateExited
		err := w.p.ReleaseResources(c)
		verifAssert("C09.balloons.release-never-fails", err == nil)
		verifAssert("C09.balloons.released-not-listed", !w.listedAnywhere(c))
		for _, j := range order[:n] {
			verifAssert("C09.balloons.stopped-never-regains", !w.listedAnywhere(w.ctrs[j]))
		}
	}
	verifCover("quiescent")
	p := w.p
	noMembers, atMin, onlyPrecreated := true, true, true
	all := cpuset.New()
	for _, b := range p.balloons {
		noMembers = verifAnd(noMembers, verifAnd(len(b.PodIDs) == 0, b.ContainerCount() == 0))
		atMin = verifAnd(atMin, b.Cpus.Size() == b.Def.MinCpus)
		all = all.Union(b.Cpus)
	}
	for _, def := range p.bpoptions.BalloonDefs {
		n := 0
		for _, b := range p.balloons {
			if b.Def == def {
				n++
			}
		}
		onlyPrecreated = verifAnd(onlyPrecreated, n == def.MinBalloons)
	}
	verifAssert("C09.balloons.no-balloon-lists-a-container", noMembers)
	verifAssert("C09.balloons.only-precreated-balloons-remain", onlyPrecreated)
	verifAssert("C09.balloons.balloons-at-min-cpus", atMin)
	verifAssert("C09.balloons.other-cpus-free", verifAnd(p.freeCpus.Equals(p.allowed.Difference(all)), p.freeCpus.Size() == pristineFree))
	verifAssert("C09.balloons.no-memory-allocations", w.libmemEmpty())
}

// ---- C12

const (
	verifOptCPUPreserveContainer = iota
	verifOptCPUPreservePod
	verifOptCPUPreserveBare
	verifOptPreserveRule
	verifOptNoPinCPU
	verifOptMemPreserve
	verifOptNoPinMemory
	verifOptNoPinMemoryType
	verifOptCount
)

const verifGiB = int64(1) << 30

// VerifC12BalloonsOptOut: container c0 is opted out of CPU pinning
// (cpu.preserve at container, pod or bare level, a matching preserve rule of
// the configuration, or pinCPU: false) or of memory pinning (memory.preserve,
// pinMemory: false for the policy or for its balloon type). It is created,
// then other containers (memory limit 40 GiB on 64 GiB nodes, so that zones
// overflow and get widened) are created and released around it. c0 is never
// told a cpuset (CPU opt-out; nothing at all when it is preserved) and never
// told memory nodes different from the ones it had (memory opt-out).
func VerifC12BalloonsOptOut() {
	kind := verifChoice("optout", verifParam("optouts", verifOptCount))
	cfg, machine := verifConfig()
	off := false
	switch kind {
	case verifOptPreserveRule:
		cfg.Preserve = &cfgapi.ContainerMatchConfig{MatchExpressions: []resmgr.Expression{
			{Key: resmgr.KeyName, Op: resmgr.Equals, Values: []string{"c0"}}}}
	case verifOptNoPinCPU:
		cfg.PinCPU = &off
	case verifOptNoPinMemory:
		cfg.PinMemory = &off
	case verifOptNoPinMemoryType:
		cfg.BalloonDefs[0].PinMemory = &off // type a
	}
	w, err := verifNewPolicy(cfg, machine)
	if err != nil {
		verifCover("config-rejected")
		return
	}
	c0 := w.newContainer(int64(verifParam("maxMilli", 2000)))
	if kind == verifOptNoPinMemoryType {
		// make c0 a container of type a
		c0.pod.annotations[balloonKey+"/container."+c0.id] = "a"
	}
	switch kind {
	case verifOptCPUPreserveContainer:
		c0.pod.annotations[cache.PreserveCpuKey+"/container."+c0.name] = "true"
	case verifOptCPUPreservePod:
		c0.pod.annotations[cache.PreserveCpuKey+"/pod"] = "true"
	case verifOptCPUPreserveBare:
		c0.pod.annotations[cache.PreserveCpuKey] = "true"
	case verifOptMemPreserve:
		c0.pod.annotations[cache.PreserveMemoryKey+"/container."+c0.name] = "true"
	}
	c0.memLimit = 40 * verifGiB
	c0.mems = "0" // what the runtime had given it
	memsBefore := c0.mems
	if err := w.p.AllocateResources(c0); err != nil {
		verifCover("optout-refused")
		return
	}
	verifCover("optout-created")
	ops := verifParam("ops", 2)
	for k := 0; k < ops; k++ {
		if len(w.ctrs) > 1 && verifChoice("op", 2) == 1 {
			v := w.ctrs[1+verifChoice("victim", len(w.ctrs)-1)]
			w.p.ReleaseResources(v)
		} else {
			c := w.newContainer(int64(verifParam("maxMilli", 2000)))
			c.memLimit = 40 * verifGiB
			w.p.AllocateResources(c)
		}
	}
	verifCover("optout-history-done")
	for _, c := range w.ctrs {
		if c.mems == "0-1" {
			verifCover("optout-some-zone-widened")
			break
		}
	}
	switch kind {
	case verifOptCPUPreserveContainer, verifOptCPUPreservePod, verifOptCPUPreserveBare, verifOptPreserveRule:
		verifAssert("C12.balloons.preserved-never-told-cpuset", c0.cpusCalls == 0)
		verifAssert("C12.balloons.preserved-never-told-mems", c0.memsCalls == 0)
		verifAssert("C12.balloons.preserved-in-no-balloon", !w.listedAnywhere(c0))
	case verifOptNoPinCPU:
		for _, c := range w.ctrs {
			verifAssert("C12.balloons.pincpu-off-nobody-told-cpuset", c.cpusCalls == 0)
		}
	case verifOptMemPreserve:
		verifAssert("C12.balloons.memory-preserve-mems-unchanged", c0.mems == memsBefore)
	case verifOptNoPinMemory:
		for _, c := range w.ctrs {
			verifAssert("C12.balloons.pinmemory-off-nobody-told-mems", c.memsCalls == 0)
		}
	case verifOptNoPinMemoryType:
		verifAssert("C12.balloons.type-pinmemory-off-mems-unchanged", c0.mems == memsBefore)
	}
}

// ---- C13

type verifBalloonView struct {
	def      string
	instance int
	cpus     cpuset.CPUSet
	shared   cpuset.CPUSet
	members  int
}

type verifStateView struct {
	allowed, reserved, free cpuset.CPUSet
	options                 *BalloonsOptions
	balloons                []verifBalloonView
	cpus, mems              []string
	shares                  []int64
}

func (w *verifWorld) stateView() *verifStateView {
	p := w.p
	v := &verifStateView{allowed: p.allowed, reserved: p.reserved, free: p.freeCpus, options: p.bpoptions}
	for _, b := range p.balloons {
		v.balloons = append(v.balloons, verifBalloonView{b.Def.Name, b.Instance, b.Cpus, b.SharedIdleCpus, b.ContainerCount()})
	}
	for _, c := range w.ctrs {
		v.cpus = append(v.cpus, c.cpus)
		v.mems = append(v.mems, c.mems)
		v.shares = append(v.shares, c.shares)
	}
	return v
}

func (v *verifStateView) sameBalloons(o *verifStateView) bool {
	ok := len(v.balloons) == len(o.balloons)
	for i := range v.balloons {
		if i >= len(o.balloons) {
			break
		}
		a, b := v.balloons[i], o.balloons[i]
		ok = verifAnd(ok, verifAnd(a.def == b.def, verifAnd(a.instance == b.instance, a.members == b.members)))
		ok = verifAnd(ok, verifAnd(a.cpus.Equals(b.cpus), a.shared.Equals(b.shared)))
	}
	return ok
}

func (v *verifStateView) sameContainers(o *verifStateView) bool {
	ok := len(v.cpus) == len(o.cpus)
	for i := range v.cpus {
		ok = verifAnd(ok, verifAnd(v.cpus[i] == o.cpus[i], verifAnd(v.mems[i] == o.mems[i], v.shares[i] == o.shares[i])))
	}
	return ok
}

// verifBadConfig returns a configuration that setConfig must reject.
//
//	0: two balloon types with the same name
//	1: MinCpus > MaxCpus in a type
//	2: reserved cpuset outside the available CPUs
//	3: a type with a load that no load class defines
//	4: unparsable available cpuset
//	5: MinBalloons > MaxBalloons in a type, and a different (valid) available cpuset
//	6: duplicate type names, and a different (valid) reserved cpuset
//	7: valid but unsatisfiable: 3 pre-created balloons of 4 CPUs on 8 CPUs
//
// Unless stated otherwise the available and reserved cpusets are those of the
// current configuration cur.
func verifBadConfig(kind int, cur *cfgapi.Config) *cfgapi.Config {
	cfg := &cfgapi.Config{
		IdleCpuClass:      "idle",
		ReservedResources: cfgapi.Constraints{cfgapi.CPU: "cpuset:0"},
	}
	if amount, ok := cur.AvailableResources[cfgapi.CPU]; ok {
		cfg.AvailableResources = cfgapi.Constraints{cfgapi.CPU: amount}
	}
	a := &cfgapi.BalloonDef{Name: "a", CpuClass: "class-a", Namespaces: []string{"ns-a"}, AllocatorPriority: cfgapi.PriorityNormal}
	cfg.BalloonDefs = []*cfgapi.BalloonDef{a}
	switch kind {
	case 0:
		cfg.BalloonDefs = append(cfg.BalloonDefs, &cfgapi.BalloonDef{Name: "a"})
	case 1:
		a.MinCpus, a.MaxCpus = 3, 2
	case 2:
		cfg.ReservedResources = cfgapi.Constraints{cfgapi.CPU: "cpuset:63"}
	case 3:
		a.Loads = []string{"undefined-load"}
	case 4:
		cfg.AvailableResources = cfgapi.Constraints{cfgapi.CPU: "cpuset:x"}
	case 5:
		a.MinBalloons, a.MaxBalloons = 2, 1
		cfg.AvailableResources = cfgapi.Constraints{cfgapi.CPU: "cpuset:0-3"}
	case 6:
		cfg.BalloonDefs = append(cfg.BalloonDefs, &cfgapi.BalloonDef{Name: "a"})
		cfg.ReservedResources = cfgapi.Constraints{cfgapi.CPU: "cpuset:1"}
	default:
		a.MinCpus, a.MinBalloons = 4, 3
	}
	return cfg
}

// VerifC13BalloonsReconfigure: after a short history, (scenario 0) the
// unchanged configuration is applied again through the real Reconfigure: it is
// accepted and no container's resources change; (scenario 1) a configuration
// of one of the rejection kinds is applied: Reconfigure fails and the policy's
// available / reserved / free CPUs, options, balloons and every container's
// resources are what they were.
func VerifC13BalloonsReconfigure() {
	cfg, machine := verifConfig()
	w, err := verifNewPolicy(cfg, machine)
	if err != nil {
		verifCover("config-rejected")
		return
	}
	// fixed start of the history: containers of the default type, 1023 mCPU
	for k := 0; k < verifParam("prefix", 0); k++ {
		c := w.newContainerOf(0, 1023)
		if err := w.p.AllocateResources(c); err != nil {
			delete(w.cache.containers, c.id)
		}
	}
	ops := verifParam("ops", 2)
	for k := 0; k < ops; k++ {
		if len(w.ctrs) > 0 && verifParam("releases", 1) != 0 && verifChoice("op", 2) == 1 {
			i := verifChoice("victim", len(w.ctrs))
			w.p.ReleaseResources(w.ctrs[i])
			// what the resource manager does with a removed container
			delete(w.cache.containers, w.ctrs[i].id)
		} else {
			c := w.newContainer(int64(verifParam("maxMilli", 2500)))
			if err := w.p.AllocateResources(c); err != nil {
				// a container whose creation failed is not in the cache
				delete(w.cache.containers, c.id)
			}
		}
	}
	before := w.stateView()
	if verifChoice("scenario", 2) == 0 {
		err := w.p.Reconfigure(cfg.DeepCopy())
		verifCover("reconfigured-unchanged")
		verifAssert("C13.balloons.unchanged-config-accepted", err == nil)
		after := w.stateView()
		verifAssert("C13.balloons.unchanged-config-keeps-container-resources", before.sameContainers(after))
		verifAssert("C13.balloons.unchanged-config-keeps-cpu-sets", verifAnd(before.allowed.Equals(after.allowed), before.reserved.Equals(after.reserved)))
	} else {
		kind := verifChoice("bad", verifParam("badConfigs", 8))
		err := w.p.Reconfigure(verifBadConfig(kind, cfg))
		verifCover("reconfigure-rejected")
		verifAssert("C13.balloons.invalid-config-rejected", err != nil)
		after := w.stateView()
		// Sub-claims judged under their own labels (asserted last: an assertion
		// that fails on every input of a path ends the path):
		//  - a rejected update that names another available / reserved cpuset
		//    than the current one (kinds 5, 6);
		//  - an update that passes validation and fails while its balloons are
		//    created (kind 7).
		sameAllowed, sameReserved := before.allowed.Equals(after.allowed), before.reserved.Equals(after.reserved)
		sameState := verifAnd(before.free.Equals(after.free), verifAnd(before.options == after.options, before.sameBalloons(after)))
		verifAssert("C13.balloons.rejected-config-keeps-container-resources", before.sameContainers(after))
		if kind != 5 {
			verifAssert("C13.balloons.rejected-config-keeps-available-cpus", sameAllowed)
		}
		if kind != 6 {
			verifAssert("C13.balloons.rejected-config-keeps-reserved-cpus", sameReserved)
		}
		if kind != 7 {
			verifAssert("C13.balloons.rejected-config-keeps-free-cpus", before.free.Equals(after.free))
			verifAssert("C13.balloons.rejected-config-keeps-options", before.options == after.options)
			verifAssert("C13.balloons.rejected-config-keeps-balloons", before.sameBalloons(after))
		}
		switch kind {
		case 5:
			verifAssert("C13.balloons.rejected-config-keeps-available-cpus.update-names-other-cpuset", sameAllowed)
		case 6:
			verifAssert("C13.balloons.rejected-config-keeps-reserved-cpus.update-names-other-cpuset", sameReserved)
		case 7:
			verifAssert("C13.balloons.rejected-config-keeps-state.update-fails-creating-balloons", sameState)
		}
	}
}

// ---- C04

// VerifC04BalloonsMem: histories of allocations and releases of containers
// with memory limits of 0, 30 or 40 GiB (two of the latter overflow a 64 GiB node,
// so zones get widened and other containers' zones with them). After every
// request, for every container that is a member of a balloon and for which the
// allocator holds an assignment: the memory nodes told to the runtime equal
// MemsetString(AssignedZone(id)), are non-empty and name existing nodes.
func VerifC04BalloonsMem() {
	cfg, machine := verifConfig()
	if k := verifParam("memoryTypesChoice", 1); k == 2 || (k == 1 && verifChoice("memoryTypes", 2) == 1) {
		// balloon types with a memory type preference: re-pinning goes through
		// Realloc with a type mask
		for _, d := range cfg.BalloonDefs {
			d.MemoryTypes = []string{"DRAM"}
		}
		verifCover("memory-types-configured")
	}
	w, err := verifNewPolicy(cfg, machine)
	if err != nil {
		verifCover("config-rejected")
		return
	}
	existing := libmem.NewNodeMask(0, 1)
	zonesBefore := map[string]libmem.NodeMask{}
	// judged under its own label, asserted at the end (an assertion that fails on
	// every input of a path ends the path)
	softFellBack := true
	// fixed start of the history: containers of type a with a 40 GiB limit
	for k := 0; k < verifParam("prefix", 0); k++ {
		c := w.newContainerOf(4, 500)
		c.memLimit = 40 * verifGiB
		if err := w.p.AllocateResources(c); err == nil {
			w.member[len(w.ctrs)-1] = true
		}
	}
	ops := verifParam("ops", 2)
	for k := 0; k < ops; k++ {
		if len(w.ctrs) > 0 && verifParam("releases", 1) != 0 && verifChoice("op", 2) == 1 {
			i := verifChoice("victim", len(w.ctrs))
			w.p.ReleaseResources(w.ctrs[i])
			w.member[i] = false
			verifCover("mem-released")
			_, held := w.p.memAllocator.AssignedZone(w.ctrs[i].id)
			verifAssert("C04.balloons.released-holds-no-memory", !held)
		} else {
			c := w.newContainer(int64(verifParam("maxMilli", 2000)))
			c.memLimit = []int64{0, 40, 30}[verifChoice("mem", verifParam("memSizes", 3))] * verifGiB
			if err := w.p.AllocateResources(c); err == nil {
				w.member[len(w.ctrs)-1] = true
				verifCover("mem-allocated")
			}
		}
		// (a container that was told the memory nodes of its balloon although the
		// allocator keeps another zone for it - allocMem's fallback when Realloc
		// fails - is judged under its own label)
		follows, followsFallback, nonEmpty, exist, assigned := true, true, true, true, true
		for i, c := range w.ctrs {
			if !w.member[i] {
				continue
			}
			zone, ok := w.p.memAllocator.AssignedZone(c.id)
			assigned = verifAnd(assigned, ok)
			if !ok {
				continue
			}
			if old, seen := zonesBefore[c.id]; seen && old != zone && i != len(w.ctrs)-1 {
				verifCover("mem-zone-of-earlier-container-changed")
			}
			zonesBefore[c.id] = zone
			eq := c.mems == zone.MemsetString()
			fellBack := false
			if _, b := w.balloonsListing(c.id); b != nil {
				// told the balloon's nodes while the allocator keeps a strictly smaller zone
				req := libmem.NewNodeMask(b.Mems.Members()...)
				fellBack = verifAnd(c.mems == req.MemsetString(), verifAnd(zone != req, zone.And(req) == zone))
				if zone.Size() > b.Mems.Size() {
					verifCover("mem-zone-wider-than-balloon-mems")
				}
			}
			follows = verifAnd(follows, verifOr(eq, fellBack))
			followsFallback = verifAnd(followsFallback, verifOr(eq, !fellBack))
			nonEmpty = verifAnd(nonEmpty, verifAnd(zone.Size() > 0, c.mems != ""))
			exist = verifAnd(exist, zone.And(existing) == zone)
		}
		verifAssert("C04.balloons.mems-equal-assigned-zone", follows)
		softFellBack = verifAnd(softFellBack, followsFallback)
		verifAssert("C04.balloons.mems-non-empty", nonEmpty)
		verifAssert("C04.balloons.mems-existing-nodes", exist)
		verifAssert("C04.balloons.member-holds-assignment", assigned)
	}
	verifAssert("C04.balloons.mems-equal-assigned-zone.realloc-fell-back-to-requested-nodes", softFellBack)
}
