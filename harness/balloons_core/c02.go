//go:build verif

package balloons

// C02: balloons partition CPUs and confine their containers. Bounded histories
// through the public AllocateResources / ReleaseResources from the state the
// real setConfig builds; every sentence of the property is asserted after the
// initial configuration and after every request.

import (
	cfgapi "github.com/containers/nri-plugins/pkg/apis/config/v1alpha1/resmgr/policy/balloons"
	"github.com/containers/nri-plugins/pkg/utils/cpuset"
)

// scopeIdle returns every idle (free), non-isolated CPU in the sharing scope
// of a balloon: the CPUs of the topology elements of the configured level in
// which the balloon has CPUs.
func (w *verifWorld) scopeIdle(bln *Balloon) cpuset.CPUSet {
	out := cpuset.New()
	level := bln.Def.ShareIdleCpusInSame
	if level == cfgapi.CPUTopologyLevelUndefined {
		return out
	}
	var visit func(t *cpuTreeNode)
	visit = func(t *cpuTreeNode) {
		if t.level == level {
			if !t.cpus.Intersection(bln.Cpus).IsEmpty() {
				out = out.Union(t.cpus)
			}
			return
		}
		for _, ch := range t.children {
			visit(ch)
		}
	}
	visit(w.p.cpuTree)
	return out.Intersection(w.p.freeCpus).Difference(w.sys.Isolated())
}

// singleThreads is the oracle for hidden hyperthreads: the lowest CPU of the
// set on every physical core.
func (w *verifWorld) singleThreads(cpus cpuset.CPUSet) cpuset.CPUSet {
	out := cpuset.New()
	for id := 0; id < w.ncpu; id++ {
		if !cpus.Contains(id) {
			continue
		}
		lowest := true
		for o := 0; o < id; o++ {
			if cpus.Contains(o) && w.sys.CPU(o).CoreID() == w.sys.CPU(id).CoreID() && w.sys.CPU(o).PackageID() == w.sys.CPU(id).PackageID() {
				lowest = false
			}
		}
		if lowest {
			out = out.Union(cpuset.New(id))
		}
	}
	return out
}

// checkC02 asserts the property on the current state (one conjunction per label).
func (w *verifWorld) checkC02() {
	p := w.p
	isolated := w.sys.Isolated()

	// --- balloons partition the available CPUs
	disjoint, within := true, true
	all := cpuset.New()
	for i, b := range p.balloons {
		within = verifAnd(within, b.Cpus.IsSubsetOf(p.allowed))
		for j := i + 1; j < len(p.balloons); j++ {
			disjoint = verifAnd(disjoint, b.Cpus.Intersection(p.balloons[j].Cpus).IsEmpty())
		}
		all = all.Union(b.Cpus)
	}
	verifAssert("C02.cpus-disjoint", disjoint)
	verifAssert("C02.cpus-within-allowed", within)
	verifAssert("C02.free-is-allowed-minus-balloons", p.freeCpus.Equals(p.allowed.Difference(all)))

	// --- shared idle CPUs
	w.unshared = w.unshared.Intersection(p.freeCpus)
	w.unsharedDeleted = w.unsharedDeleted.Intersection(p.freeCpus)
	includesScopeDeleted := true
	notInBalloon, notIsolated, sharedAllowed, includesScope, includesScopeAbandoned := true, true, true, true, true
	for _, b := range p.balloons {
		notInBalloon = verifAnd(notInBalloon, b.SharedIdleCpus.Intersection(all).IsEmpty())
		notIsolated = verifAnd(notIsolated, b.SharedIdleCpus.Intersection(isolated).IsEmpty())
		sharedAllowed = verifAnd(sharedAllowed, b.SharedIdleCpus.IsSubsetOf(p.allowed))
		scope := w.scopeIdle(b)
		includesScope = verifAnd(includesScope, scope.Difference(w.unshared).Difference(w.unsharedDeleted).IsSubsetOf(b.SharedIdleCpus))
		includesScopeDeleted = verifAnd(includesScopeDeleted, scope.Intersection(w.unsharedDeleted).IsSubsetOf(b.SharedIdleCpus))
		includesScopeAbandoned = verifAnd(includesScopeAbandoned, scope.Intersection(w.unshared).IsSubsetOf(b.SharedIdleCpus))
	}
	verifAssert("C02.shared-idle-not-in-any-balloon", notInBalloon)
	verifAssert("C02.shared-idle-not-isolated", notIsolated)
	verifAssert("C02.shared-idle-within-allowed", sharedAllowed)
	verifAssert("C02.shared-idle-includes-scope", includesScope)
	w.softScopeRefused = verifAnd(w.softScopeRefused, includesScopeAbandoned)
	w.softScopeDeleted = verifAnd(w.softScopeDeleted, includesScopeDeleted)

	// --- membership and confinement
	exactlyOne, notListed, confined := true, true, true
	for i, c := range w.ctrs {
		n, b := w.balloonsListing(c.id)
		if !w.member[i] {
			notListed = verifAnd(notListed, n == 0)
			continue
		}
		exactlyOne = verifAnd(exactlyOne, n == 1)
		if b == nil {
			continue
		}
		want := b.Cpus.Union(b.SharedIdleCpus)
		if b.Def.HideHyperthreads != nil && *b.Def.HideHyperthreads {
			want = w.singleThreads(want)
		}
		confined = verifAnd(confined, verifAnd(c.cpusCalls > 0, c.pinned().Equals(want)))
	}
	verifAssert("C02.container-in-exactly-one-balloon", exactlyOne)
	verifAssert("C02.unmanaged-container-in-no-balloon", notListed)
	verifAssert("C02.container-cpuset-is-balloon-plus-shared-idle", confined)

	// --- limits of every balloon type
	minCpus, maxCpus, minBalloons, maxBalloons := true, true, true, true
	for _, b := range p.balloons {
		minCpus = verifAnd(minCpus, b.Cpus.Size() >= b.Def.MinCpus)
		maxCpus = verifAnd(maxCpus, verifOr(b.Def.MaxCpus == NoLimit, b.Cpus.Size() <= b.Def.MaxCpus))
	}
	for _, def := range p.bpoptions.BalloonDefs {
		n := 0
		for _, b := range p.balloons {
			if b.Def == def {
				n++
			}
		}
		minBalloons = verifAnd(minBalloons, n >= def.MinBalloons)
		maxBalloons = verifAnd(maxBalloons, verifOr(def.MaxBalloons == NoLimit, n <= def.MaxBalloons))
	}
	verifAssert("C02.min-cpus", minCpus)
	verifAssert("C02.max-cpus", maxCpus)
	verifAssert("C02.min-balloons", minBalloons)
	verifAssert("C02.max-balloons", maxBalloons)

	// --- a non-empty balloon has a CPU, and as many as its containers request
	// (a balloon already at its type's MaxCpus is judged under its own label)
	hasCpu, fits, fitsCapped := true, true, true
	for _, b := range p.balloons {
		var sum int64
		n := 0
		for i, c := range w.ctrs {
			if cnt, in := w.balloonsListing(c.id); w.member[i] && cnt > 0 && in == b {
				sum += c.milliCPU
				n++
			}
		}
		if n == 0 {
			continue
		}
		hasCpu = verifAnd(hasCpu, b.Cpus.Size() >= 1)
		ok := int64(1000*b.Cpus.Size()) >= sum
		if b.Def.MaxCpus != NoLimit && b.Cpus.Size() >= b.Def.MaxCpus {
			fitsCapped = verifAnd(fitsCapped, ok)
		} else {
			fits = verifAnd(fits, ok)
		}
	}
	verifAssert("C02.nonempty-balloon-has-cpu", hasCpu)
	verifAssert("C02.balloon-cpus-cover-requests", fits)
	w.softFitsCapped = verifAnd(w.softFitsCapped, fitsCapped)

	// --- CPU classes. CPUs that a refused AllocateResources left idle with a
	// balloon type's class (see VerifC02History) are judged under their own label.
	w.abandoned = w.abandoned.Intersection(p.freeCpus)
	balloonClass, idleClass, idleClassAbandoned := true, true, true
	for id := 0; id < w.ncpu; id++ {
		if !p.allowed.Contains(id) {
			continue
		}
		want, inBalloon := p.bpoptions.IdleCpuClass, false
		for _, b := range p.balloons {
			if b.Cpus.Contains(id) {
				want, inBalloon = b.Def.CpuClass, true
			}
		}
		got := w.classesOf(id)
		ok := len(got) == 1 && got[0] == want
		if inBalloon {
			balloonClass = verifAnd(balloonClass, ok)
		} else if w.abandoned.Contains(id) {
			idleClassAbandoned = verifAnd(idleClassAbandoned, ok)
		} else {
			idleClass = verifAnd(idleClass, ok)
		}
	}
	verifAssert("C02.cpu-class-of-balloon-cpus", balloonClass)
	verifAssert("C02.cpu-class-of-idle-cpus", idleClass)
	w.softClassRefused = verifAnd(w.softClassRefused, idleClassAbandoned)
}

// assertSoftC02 asserts, for all states checked by checkC02 so far, the
// sub-claims that have their own labels (see verifWorld).
func (w *verifWorld) assertSoftC02() {
	verifAssert("C02.balloon-cpus-cover-requests.at-max-cpus", w.softFitsCapped)
	verifAssert("C02.shared-idle-includes-scope.after-balloon-deleted", w.softScopeDeleted)
	verifAssert("C02.shared-idle-includes-scope.after-refused-allocation", w.softScopeRefused)
	verifAssert("C02.cpu-class-of-idle-cpus.after-refused-allocation", w.softClassRefused)
}

// VerifC02History: a solver-chosen accepted configuration, then up to `ops`
// requests, each AllocateResources of a new symbolic container or
// ReleaseResources of an existing one; checkC02 after the configuration and
// after every request.
func VerifC02History() {
	w, err := verifNewPolicy(verifConfig())
	if err != nil {
		// configuration rejected (e.g. MinCpus > MaxCpus): outside the quantifier
		verifCover("config-rejected")
		return
	}
	verifCover("policy-configured")
	w.checkC02()
	// fixed prefix of the history: containers of type a (by annotation) in
	// their own pods, 500 mCPU each
	for k := 0; k < verifParam("prefix", 0); k++ {
		c := w.newContainerOf(4, 500)
		if err := w.p.AllocateResources(c); err != nil {
			return
		}
		w.member[len(w.ctrs)-1] = true
		w.checkC02()
	}
	verifCover("prefix-done")
	ops := verifParam("ops", 2)
	for k := 0; k < ops; k++ {
		op := 0
		if len(w.ctrs) > 0 && verifParam("releases", 1) != 0 {
			op = verifChoice("op", 2)
		}
		switch op {
		case 0:
			c := w.newContainer(int64(verifParam("maxMilli", 2500)))
			if err := w.p.AllocateResources(c); err != nil {
				verifCover("allocate-refused")
				// idle CPUs that this refused request removed from a balloon's shared idle CPUs
				for _, b := range w.p.balloons {
					w.unshared = w.unshared.Union(w.scopeIdle(b).Difference(b.SharedIdleCpus))
				}
				// idle CPUs whose class this refused request changed
				for id := 0; id < w.ncpu; id++ {
					if got := w.classesOf(id); w.p.freeCpus.Contains(id) && !(len(got) == 1 && got[0] == w.p.bpoptions.IdleCpuClass) {
						w.abandoned = w.abandoned.Union(cpuset.New(id))
					}
				}
			} else {
				verifCover("allocated")
				w.member[len(w.ctrs)-1] = true
			}
		case 1:
			i := verifChoice("victim", len(w.ctrs))
			if !w.member[i] {
				w.assertSoftC02()
				return
			}
			nBalloons := len(w.p.balloons)
			w.p.ReleaseResources(w.ctrs[i])
			verifCover("released")
			w.member[i] = false
			if len(w.p.balloons) < nBalloons {
				// the container's balloon was deleted: idle CPUs that are now
				// missing from the shared idle CPUs of a balloon
				verifCover("released-balloon-deleted")
				for _, b := range w.p.balloons {
					w.unsharedDeleted = w.unsharedDeleted.Union(w.scopeIdle(b).Difference(b.SharedIdleCpus))
				}
			}
		}
		w.checkC02()
	}
	w.assertSoftC02()
}
