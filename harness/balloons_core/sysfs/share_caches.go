//go:build verif

package sysfs

// Overlay helper for the balloons harnesses (injected next to
// sysfs_fake/fake.go). The real discovery stores one *Cache object per
// (level, kind, id) and hands the same pointer to every CPU sharing the cache
// (saveCache); the balloons CPU tree builder keys a map by that pointer.
// VerifNewSystem gives every CPU its own Cache objects, so this helper routes
// them through the real saveCache the way discoverCache does.
func VerifShareCaches(s System) {
	sys := s.(*system)
	for id := 0; id < 64; id++ {
		c, ok := sys.cpus[id]
		if !ok {
			continue
		}
		for i, cc := range c.caches {
			c.caches[i] = sys.saveCache(cc)
		}
	}
}
