//go:build verif

package cpu

import (
	"github.com/containers/nri-plugins/pkg/resmgr/cache"
)

// VerifClassesOf returns, sorted, the names of the CPU classes that the
// assignments stored by the real Assign in the cache's policy entry hold for
// the given CPU (read-only accessor for the balloons harnesses: the stored
// type is unexported).
func VerifClassesOf(c cache.Cache, cpuID int) []string {
	a := getClassAssignments(c)
	var names []string
	for k, v := range *a {
		if v.Has(cpuID) {
			names = append(names, k)
		}
	}
	for i := 1; i < len(names); i++ {
		for j := i; j > 0 && names[j] < names[j-1]; j-- {
			names[j], names[j-1] = names[j-1], names[j]
		}
	}
	return names
}
