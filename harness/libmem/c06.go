//go:build verif

package libmem

// C06: memory allocator operations are transactional; stale offers refused.

func verifAllIDs(w *verifWorld, extra ...string) []string {
	ids := append([]string{}, w.ids...)
	return append(ids, extra...)
}

// VerifC06FailNoop: a failing Allocate/Realloc/GetOffer leaves every
// assignment and all zone usage unchanged; a successful GetOffer likewise.
func VerifC06FailNoop() {
	w := verifLayout(verifPickLayout())
	w.build(verifParam("prior", 1))
	ids := verifAllIDs(w, "new")
	before := w.snap(ids)
	switch verifChoice("op", 3) {
	case 0:
		r := w.verifRequest("new", true)
		_, _, err := w.a.Allocate(r)
		if err != nil {
			verifCover("allocate-failed")
			verifAssert("C06.failed-allocate-noop", before.same(w.snap(ids), ids))
		} else {
			verifCover("allocate-ok")
		}
	case 1:
		if len(w.ids) == 0 {
			return
		}
		id := w.ids[verifChoice("target", len(w.ids))]
		nodes := NodeMask(verifChoice("nodes", int(w.allMask())+1))
		types := verifTypeMasks[verifChoice("rtypes", len(verifTypeMasks))]
		_, _, err := w.a.Realloc(id, nodes, types)
		if err != nil {
			verifCover("realloc-failed")
			verifAssert("C06.failed-realloc-noop", before.same(w.snap(ids), ids))
		} else {
			verifCover("realloc-ok")
		}
	case 2:
		r := w.verifRequest("new", true)
		_, err := w.a.GetOffer(r)
		if err != nil {
			verifCover("getoffer-failed")
			verifAssert("C06.failed-getoffer-noop", before.same(w.snap(ids), ids))
		} else {
			verifCover("getoffer-ok")
			verifAssert("C06.getoffer-pure", before.same(w.snap(ids), ids))
		}
	}
}

// VerifC06CommitEqualsAllocate: twin allocators built from the same symbolic
// parameters: GetOffer;Commit on one and Allocate on the other give the same
// zone, the same update map and the same final assignments.
func VerifC06CommitEqualsAllocate() {
	layout := verifPickLayout()
	wa := verifLayout(layout)
	specs := wa.build(verifParam("prior", 1))
	spec := wa.verifNewSpec(true)
	wb := verifLayoutCaps(layout, wa.caps)
	wb.buildFrom(specs)
	ra, rb := spec.request("new"), spec.request("new")

	offer, errA := wa.a.GetOffer(ra)
	zoneB, updB, errB := wb.a.Allocate(rb)
	verifCover("twin-ran")
	verifAssert("C06.offer-fails-iff-allocate-fails", (errA == nil) == (errB == nil))
	if errA != nil || errB != nil {
		return
	}
	// the caller may look at the offer before committing it (the offer's own
	// accessors are pure: what they report is what Commit then does)
	inspected := verifParam("inspectOffer", 1) != 0 && verifChoice("inspect", 2) == 1
	var seenZone NodeMask
	var seenUpd map[string]NodeMask
	if inspected {
		seenZone = offer.NodeMask()
		seenUpd = offer.Updates()
		verifAssert("C06.offer-valid-before-commit", offer.IsValid())
	}
	zoneA, updA, errC := offer.Commit()
	verifCover("twin-committed")
	if inspected && errC == nil {
		verifCover("twin-inspected")
		verifAssert("C06.offer-reports-what-commit-does", verifAnd(seenZone == zoneA, verifMapsEqual(seenUpd, updA)))
	}
	verifAssert("C06.fresh-offer-commits", errC == nil)
	if errC != nil {
		return
	}
	verifAssert("C06.commit-zone-equals-allocate", zoneA == zoneB)
	verifAssert("C06.commit-updates-equal-allocate", verifMapsEqual(updA, updB))
	ids := verifAllIDs(wa, "new")
	sa, sb := wa.snap(ids), wb.snap(ids)
	verifAssert("C06.commit-state-equals-allocate", sa.same(sb, ids))
}

// VerifC06StaleOffer: an offer taken before a later successful Allocate,
// Realloc (that changed something), Release or Commit is refused.
func VerifC06StaleOffer() {
	w := verifLayout(verifPickLayout())
	var enabled []int
	for k := 0; k < 4; k++ {
		if verifParam("staleOpMask", 15)&(1<<uint(k)) != 0 {
			enabled = append(enabled, k)
		}
	}
	op := enabled[verifChoice("op", len(enabled))]
	if op == 1 || op == 2 {
		// re-allocation / release need an existing allocation to act on
		w.build(verifParam("prior", 1))
	} else {
		// allocate / commit bring their own second request
		w.build(verifParam("stalePrior", verifParam("prior", 1)))
	}
	r1 := w.verifRequest("offered", false)
	offer, err := w.a.GetOffer(r1)
	if err != nil {
		return
	}
	ids := verifAllIDs(w, "offered", "other")
	before := w.snap(ids)
	switch op {
	case 0:
		r2 := w.verifRequest("other", false)
		if _, _, err := w.a.Allocate(r2); err != nil {
			return
		}
		verifCover("stale-after-allocate")
		_, _, err = offer.Commit()
		verifAssert("C06.stale-offer-refused.allocate", err != nil)
	case 1:
		if len(w.ids) == 0 {
			return
		}
		id := w.ids[verifChoice("target", len(w.ids))]
		nodes := NodeMask(verifChoice("nodes", int(w.allMask())+1))
		if _, _, err := w.a.Realloc(id, nodes, 0); err != nil {
			return
		}
		// only a re-allocation that changed the allocator's state makes the offer stale
		if before.same(w.snap(ids), ids) {
			return
		}
		verifCover("stale-after-realloc")
		_, _, err = offer.Commit()
		verifAssert("C06.stale-offer-refused.realloc", err != nil)
	case 2:
		if len(w.ids) == 0 {
			return
		}
		id := w.ids[verifChoice("target", len(w.ids))]
		if err := w.a.Release(id); err != nil {
			return
		}
		verifCover("stale-after-release")
		_, _, err = offer.Commit()
		verifAssert("C06.stale-offer-refused.release", err != nil)
	case 3:
		r2 := w.verifRequest("other", false)
		o2, err := w.a.GetOffer(r2)
		if err != nil {
			return
		}
		if _, _, err := o2.Commit(); err != nil {
			return
		}
		verifCover("stale-after-commit")
		_, _, err = offer.Commit()
		verifAssert("C06.stale-offer-refused.commit", err != nil)
	}
}

// VerifC06ReleaseOnly: releasing an allocation removes that allocation only.
func VerifC06ReleaseOnly() {
	w := verifLayout(verifPickLayout())
	w.build(verifParam("prior", 1) + 1)
	if len(w.ids) == 0 {
		return
	}
	ids := verifAllIDs(w)
	before := w.snap(ids)
	id := w.ids[verifChoice("target", len(w.ids))]
	err := w.a.Release(id)
	verifCover("released")
	verifAssert("C06.release-live-succeeds", err == nil)
	after := w.snap(ids)
	verifAssert("C06.release-removes-it", !after.live[id])
	verifAssert("C06.release-only-that", before.sameAssignments(after, ids, id))
	// usage of every mask drops by exactly its size where it was confined
	zone := before.zones[id]
	ok := true
	i := 0
	for m := NodeMask(1); m <= w.allMask(); m++ {
		exp := before.usage[i]
		if m&zone == zone {
			exp -= w.size[id]
		}
		ok = verifAnd(ok, after.usage[i] == exp)
		i++
	}
	verifAssert("C06.release-usage-exact", ok)
	verifAssert("C06.release-unknown-fails", w.a.Release(id) != nil)
}

// VerifC06ChainedMoves: two existing requests pinned to the two DRAM nodes of
// the 3-node layout, so that resolving the overcommit caused by a third one
// can move an existing request more than once within one operation
// ({0} -> {0,1} -> {0,1,2}). A failing Allocate and every GetOffer must still
// leave all assignments and all zone usage exactly as before.
func VerifC06ChainedMoves() {
	// node capacities fixed (100 bytes each): the request sizes stay symbolic
	w := verifLayoutCaps(0, []int64{100, 100, 100})
	var specs []verifSpec
	for i := 0; i < 2; i++ {
		s := w.verifNewSpec(false)
		s.affinity = NodeMask(1) << uint(i)
		verifAssume(s.prio == Burstable)
		if verifParam("concretePriors", 1) == 1 {
			// quick tier: the two existing requests have fixed sizes (60 on node 0,
			// 90 on node 1); only the new request is symbolic
			verifAssume(s.limit == int64(60+30*i))
		}
		specs = append(specs, s)
	}
	w.buildFrom(specs)
	if len(w.ids) < 2 {
		return
	}
	ids := verifAllIDs(w, "new")
	before := w.snap(ids)
	spec := w.verifNewSpec(false)
	verifAssume(spec.prio == Burstable)
	spec.affinity = NodeMask(1 + verifChoice("newaff", 3)) // {0}, {1}, {0,1}
	r := spec.request("new")
	if verifChoice("op", 2) == 0 {
		_, _, err := w.a.Allocate(r)
		if err != nil {
			verifCover("chained-allocate-failed")
			verifAssert("C06.failed-allocate-noop", before.same(w.snap(ids), ids))
		} else {
			verifCover("chained-allocate-ok")
		}
	} else {
		_, err := w.a.GetOffer(r)
		if err != nil {
			verifCover("chained-getoffer-failed")
			verifAssert("C06.failed-getoffer-noop", before.same(w.snap(ids), ids))
		} else {
			verifCover("chained-getoffer-ok")
			verifAssert("C06.getoffer-pure", before.same(w.snap(ids), ids))
		}
	}
}
