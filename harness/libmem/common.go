//go:build verif

package libmem

// Shared fixtures for the C06/C07/C09 libmem harnesses. Everything goes
// through the real NewNode/NewAllocator/NewRequest; the discrete structure
// (layout, masks, types, priorities, operation kinds) is solver-chosen by
// case split, the quantities (capacities, sizes) are symbolic 64-bit values.

import (
	"github.com/containers/nri-plugins/pkg/utils/cpuset"
)

const verifMaxBytes = int64(1) << 40

type verifWorld struct {
	a     *Allocator
	n     int     // number of nodes
	caps  []int64 // symbolic capacities
	types []Type
	norm  []bool
	ids   []string         // ids that may be live
	size  map[string]int64 // ledger: id -> size
	prio  map[string]Priority
	strict map[string]bool
	rtypes map[string]TypeMask
}

// verifLayout builds allocator layout k with symbolic capacities.
//
//	0: 2 DRAM + 1 CPU-less PMEM (asymmetric distances)
//	1: 2 DRAM nodes
//	2: DRAM + movable-only PMEM + HBM
//	3: 4 nodes, 2 DRAM + 2 PMEM, asymmetric distance matrix
func verifLayout(k int) *verifWorld { return verifLayoutCaps(k, nil) }

// verifPickLayout chooses among the layouts enabled by the bit mask
// parameter "layoutMask" (bit k = layout k).
func verifPickLayout() int {
	mask := verifParam("layoutMask", 1)
	var enabled []int
	for k := 0; k < 4; k++ {
		if mask&(1<<uint(k)) != 0 {
			enabled = append(enabled, k)
		}
	}
	return enabled[verifChoice("layout", len(enabled))]
}

// verifLayoutCaps builds layout k; with caps != nil those capacities are
// used instead of fresh symbolic ones (twin allocators).
func verifLayoutCaps(k int, caps []int64) *verifWorld {
	var (
		types []Type
		dist  [][]int
		cpus  []cpuset.CPUSet
		norm  []bool
	)
	switch k {
	case 1:
		types = []Type{TypeDRAM, TypeDRAM}
		dist = [][]int{{10, 21}, {21, 10}}
		cpus = []cpuset.CPUSet{cpuset.New(0, 1), cpuset.New(2, 3)}
		norm = []bool{true, true}
	case 0:
		types = []Type{TypeDRAM, TypeDRAM, TypePMEM}
		dist = [][]int{{10, 21, 17}, {21, 10, 28}, {17, 28, 10}}
		cpus = []cpuset.CPUSet{cpuset.New(0, 1), cpuset.New(2, 3), cpuset.New()}
		norm = []bool{true, true, true}
	case 2:
		types = []Type{TypeDRAM, TypePMEM, TypeHBM}
		dist = [][]int{{10, 17, 12}, {17, 10, 20}, {12, 20, 10}}
		cpus = []cpuset.CPUSet{cpuset.New(0, 1, 2, 3), cpuset.New(), cpuset.New()}
		norm = []bool{true, false, true}
	case 4: // four DRAM nodes on a line + a far PMEM node
		types = []Type{TypeDRAM, TypeDRAM, TypeDRAM, TypeDRAM, TypePMEM}
		dist = [][]int{{10, 11, 12, 13, 20}, {11, 10, 11, 12, 20}, {12, 11, 10, 11, 20}, {13, 12, 11, 10, 20}, {20, 20, 20, 20, 10}}
		cpus = []cpuset.CPUSet{cpuset.New(0), cpuset.New(1), cpuset.New(2), cpuset.New(3), cpuset.New()}
		norm = []bool{true, true, true, true, true}
	default:
		types = []Type{TypeDRAM, TypeDRAM, TypePMEM, TypePMEM}
		dist = [][]int{{10, 21, 17, 28}, {21, 10, 28, 17}, {17, 28, 10, 28}, {28, 17, 28, 10}}
		cpus = []cpuset.CPUSet{cpuset.New(0, 1), cpuset.New(2, 3), cpuset.New(), cpuset.New()}
		norm = []bool{true, true, true, false}
	}
	w := &verifWorld{n: len(types), types: types, norm: norm, size: map[string]int64{},
		prio: map[string]Priority{}, strict: map[string]bool{}, rtypes: map[string]TypeMask{}}
	var nodes []*Node
	for i := range types {
		var c int64
		if caps != nil {
			c = caps[i]
		} else {
			c = verifNondetInt64("cap")
			verifAssume(verifAnd(c >= 1, c <= verifMaxBytes))
		}
		w.caps = append(w.caps, c)
		n, err := NewNode(i, types[i], c, norm[i], cpus[i], dist[i])
		if err != nil {
			panic(err)
		}
		nodes = append(nodes, n)
	}
	a, err := NewAllocator(WithNodes(nodes))
	if err != nil {
		panic(err)
	}
	w.a = a
	return w
}

func (w *verifWorld) allMask() NodeMask { return NodeMask(1)<<uint(w.n) - 1 }

func (w *verifWorld) capacity(z NodeMask) int64 {
	var c int64
	for i := 0; i < w.n; i++ {
		if z&(1<<uint(i)) != 0 {
			c += w.caps[i]
		}
	}
	return c
}

var verifPrios = []Priority{BestEffort, Burstable, Guaranteed, Preserved, Reservation}
var verifTypeMasks = []TypeMask{0, TypeMaskDRAM, TypeMaskPMEM, TypeMaskHBM, TypeMaskDRAM | TypeMaskPMEM, TypeMaskAll}

// verifSpec is the solver-chosen description of one request. Only the
// affinity is split eagerly (it determines the zone structure); priority,
// type preference and strictness stay symbolic and fork lazily, where the
// allocator actually looks at them.
type verifSpec struct {
	limit    int64
	affinity NodeMask
	prio     Priority
	types    TypeMask
	strict   bool
}

func verifOneOfPrio(p Priority, n int) bool {
	ok := p == verifPrios[0]
	for _, q := range verifPrios[1:n] {
		ok = verifOr(ok, p == q)
	}
	return ok
}

// verifNewSpec draws a request description. full selects the whole
// parameter space (types, strictness, all five priorities), otherwise a
// reduced one (no type preference, priorities BestEffort..Guaranteed) used
// for state building.
func (w *verifWorld) verifNewSpec(full bool) verifSpec {
	var s verifSpec
	s.limit = verifNondetInt64("limit")
	verifAssume(verifAnd(s.limit >= 0, s.limit <= verifMaxBytes))
	if !full && verifParam("priorAff", 0) == 2 {
		// prior requests pinned to a single node each
		s.affinity = NodeMask(1) << uint(verifChoice("affinity", w.n))
	} else if (full && verifParam("opAff", 0) == 1) || (!full && verifParam("priorAff", 0) == 1) {
		// reduced affinity space: single nodes and the whole machine
		k := verifChoice("affinity", w.n+1)
		if k == w.n {
			s.affinity = w.allMask()
		} else {
			s.affinity = NodeMask(1) << uint(k)
		}
	} else {
		s.affinity = NodeMask(1 + verifChoice("affinity", int(w.allMask())))
	}
	s.prio = Priority(verifNondetInt16("prio"))
	if full && verifParam("opFull", 1) == 0 {
		// reduced operation space: all five priorities, no type preference
		verifAssume(verifOneOfPrio(s.prio, len(verifPrios)))
	} else if full {
		verifAssume(verifOneOfPrio(s.prio, len(verifPrios)))
		s.types = TypeMask(verifNondetInt("types"))
		verifAssume(verifAnd(s.types >= 0, s.types <= TypeMaskAll))
		s.strict = verifAnd(verifNondetBool("strict"), s.types != 0)
	} else {
		verifAssume(verifOneOfPrio(s.prio, 3))
	}
	return s
}

func (s verifSpec) request(id string) *Request {
	opts := []RequestOption{WithPriority(s.prio)}
	if s.strict {
		opts = append(opts, WithStrictTypes(s.types))
	} else if s.types != 0 {
		opts = append(opts, WithPreferredTypes(s.types))
	}
	return NewRequest(id, s.limit, s.affinity, opts...)
}

func (w *verifWorld) verifRequest(id string, full bool) *Request {
	return w.verifNewSpec(full).request(id)
}

func (w *verifWorld) note(r *Request) {
	w.ids = append(w.ids, r.ID())
	w.size[r.ID()] = r.Size()
	w.prio[r.ID()] = r.Priority()
	w.strict[r.ID()] = r.IsStrict()
}

// build admits up to k requests r0.. through the real Allocate; requests the
// allocator refuses are simply not part of the state.
func (w *verifWorld) build(k int) []verifSpec {
	var specs []verifSpec
	for i := 0; i < k; i++ {
		specs = append(specs, w.verifNewSpec(false))
	}
	w.buildFrom(specs)
	return specs
}

func (w *verifWorld) buildFrom(specs []verifSpec) {
	for i, s := range specs {
		r := s.request("r" + string(rune('0'+i)))
		if _, _, err := w.a.Allocate(r); err == nil {
			w.note(r)
		}
	}
}

type verifSnap struct {
	listed map[string]bool // ids ForeachRequest visits
	zones map[string]NodeMask
	live  map[string]bool
	usage []int64 // per mask 1..all
}

// snap observes the allocator through its public API only.
func (w *verifWorld) snap(ids []string) *verifSnap {
	s := &verifSnap{zones: map[string]NodeMask{}, live: map[string]bool{}}
	for _, id := range ids {
		z, ok := w.a.AssignedZone(id)
		s.zones[id], s.live[id] = z, ok
	}
	for m := NodeMask(1); m <= w.allMask(); m++ {
		s.usage = append(s.usage, w.a.ZoneUsage(m))
	}
	// the request registry as ForeachRequest shows it (Release and Realloc look
	// requests up there)
	s.listed = map[string]bool{}
	w.a.ForeachRequest(nil, func(r *Request) bool {
		s.listed[r.ID()] = true
		return true
	})
	return s
}

// same returns one boolean term: both snapshots agree on everything.
func (s *verifSnap) same(o *verifSnap, ids []string) bool {
	ok := true
	for _, id := range ids {
		ok = verifAnd(ok, verifAnd(s.live[id] == o.live[id], s.zones[id] == o.zones[id]))
		ok = verifAnd(ok, s.listed[id] == o.listed[id])
	}
	for i := range s.usage {
		ok = verifAnd(ok, s.usage[i] == o.usage[i])
	}
	return ok
}

// sameExcept is same() ignoring id `skip`, and accounting for its size in
// the usage of every zone containing `zone` (its former assignment).
func (s *verifSnap) sameAssignments(o *verifSnap, ids []string, skip string) bool {
	ok := true
	for _, id := range ids {
		if id == skip {
			continue
		}
		ok = verifAnd(ok, verifAnd(s.live[id] == o.live[id], s.zones[id] == o.zones[id]))
	}
	return ok
}

func verifMapsEqual(a, b map[string]NodeMask) bool {
	if len(a) != len(b) {
		return false
	}
	for k, v := range a {
		if bv, ok := b[k]; !ok || bv != v {
			return false
		}
	}
	return true
}
