//go:build verif

package libmem

// C07: placement rules — fit, types, monotone moves, exact updates.
// The oracle uses the harness's own ledger (id -> size, priority, strictness,
// requested types) and the allocator's public API only.

func (w *verifWorld) normalMask() NodeMask {
	var m NodeMask
	for i := 0; i < w.n; i++ {
		if w.norm[i] {
			m |= 1 << uint(i)
		}
	}
	return m
}

// checkFit asserts, for every node set Z, that the allocations confined to
// it do not exceed its capacity. Z that is some live id's assigned zone is
// label fit.assigned-zone, any other Z label fit.union.
func (w *verifWorld) checkFit(ids []string, after *verifSnap) {
	for z := NodeMask(1); z <= w.allMask(); z++ {
		var used int64
		isZone := false
		n := 0
		for _, id := range ids {
			if !after.live[id] {
				continue
			}
			if after.zones[id]&z == after.zones[id] {
				used += w.size[id]
				n++
			}
			if after.zones[id] == z {
				isZone = true
			}
		}
		if n == 0 {
			continue
		}
		if isZone {
			verifAssert("C07.fit.assigned-zone", used <= w.capacity(z))
		} else {
			verifAssert("C07.fit.union", used <= w.capacity(z))
		}
	}
}

// checkStep asserts the placement rules for one successful operation by
// requester `who` that returned (zone, updates).
func (w *verifWorld) checkStep(who string, spec *verifSpec, zone NodeMask, updates map[string]NodeMask,
	before, after *verifSnap, ids []string, isRealloc bool) {
	verifAssert("C07.returned-zone-is-assigned", verifAnd(after.live[who], after.zones[who] == zone))
	// (a) fit
	w.checkFit(ids, after)
	// (b) strict type preference
	if spec != nil {
		avail := w.a.Masks().AvailableTypes()
		want := spec.types & avail
		verifAssert("C07.strict-types", verifImplies(spec.strict, w.a.ZoneType(zone)&^want == 0))
	}
	// (c) normal memory
	if !isRealloc {
		verifAssert("C07.normal-memory", zone&w.normalMask() != 0)
	}
	// (d) monotone moves, immovable reservations
	for _, id := range ids {
		if id == who || !before.live[id] {
			continue
		}
		verifAssert("C07.others-stay-live", after.live[id])
		verifAssert("C07.moves-to-supersets", after.zones[id]&before.zones[id] == before.zones[id])
		verifAssert("C07.reservations-never-move", verifImplies(w.prio[id] == Reservation, after.zones[id] == before.zones[id]))
	}
	if isRealloc {
		verifAssert("C07.realloc-never-removes-nodes", zone&before.zones[who] == before.zones[who])
	}
	// (e) exact updates
	for _, id := range ids {
		if id == who {
			verifAssert("C07.updates-exclude-requester", !verifHas(updates, id))
			continue
		}
		changed := before.live[id] && after.zones[id] != before.zones[id]
		if changed {
			verifCover("other-request-moved")
			z, ok := updates[id]
			verifAssert("C07.updates-contain-moved", ok && z == after.zones[id])
		} else {
			verifAssert("C07.updates-only-moved", !verifHas(updates, id))
		}
	}
	for id := range updates {
		known := false
		for _, k := range ids {
			known = known || k == id
		}
		verifAssert("C07.updates-known-ids", known)
	}
}

func verifHas(m map[string]NodeMask, id string) bool {
	_, ok := m[id]
	return ok
}

// VerifC07Step: from a state built by real allocations, one more successful
// Allocate, GetOffer+Commit or Realloc satisfies every placement rule.
func VerifC07Step() {
	w := verifLayout(verifPickLayout())
	w.build(verifParam("prior", 1))
	ids := verifAllIDs(w, "new")
	before := w.snap(ids)
	switch verifChoice("op", 3) {
	case 0:
		spec := w.verifNewSpec(true)
		r := spec.request("new")
		zone, upd, err := w.a.Allocate(r)
		if err != nil {
			return
		}
		verifCover("allocated")
		w.size["new"], w.prio["new"] = r.Size(), r.Priority()
		w.checkStep("new", &spec, zone, upd, before, w.snap(ids), ids, false)
	case 1:
		spec := w.verifNewSpec(true)
		r := spec.request("new")
		o, err := w.a.GetOffer(r)
		if err != nil {
			return
		}
		zone, upd, err := o.Commit()
		if err != nil {
			return
		}
		verifCover("committed")
		w.size["new"], w.prio["new"] = r.Size(), r.Priority()
		w.checkStep("new", &spec, zone, upd, before, w.snap(ids), ids, false)
	case 2:
		if len(w.ids) == 0 {
			return
		}
		id := w.ids[verifChoice("target", len(w.ids))]
		nodes := NodeMask(verifChoice("nodes", int(w.allMask())+1))
		types := TypeMask(verifNondetInt("rtypes"))
		verifAssume(verifAnd(types >= 0, types <= TypeMaskAll))
		zone, upd, err := w.a.Realloc(id, nodes, types)
		if err != nil {
			return
		}
		verifCover("reallocated")
		w.checkStep(id, nil, zone, upd, before, w.snap(ids), ids, true)
		verifAssert("C07.realloc-adds-requested-nodes", verifImplies(types == 0, zone&nodes == nodes))
	}
}

// VerifC07CustomExpand: with a custom zone-expansion function that returns
// an arbitrary node mask, fit, monotonicity and exact updates still hold.
func VerifC07CustomExpand() {
	w := verifLayout(verifPickLayout())
	calls := 0
	w.a.custom.ExpandZone = func(zone NodeMask, types TypeMask, a CustomAllocator) NodeMask {
		// bound: the first `expands` calls return an arbitrary mask, later
		// ones give up (return no nodes)
		calls++
		if calls > verifParam("expands", 2) {
			return 0
		}
		// solver-chosen by case split (a symbolic mask would make every later
		// mask operation a bit-level query)
		return NodeMask(verifChoice("expand", int(w.allMask())+1))
	}
	w.build(verifParam("prior", 1))
	ids := verifAllIDs(w, "new")
	before := w.snap(ids)
	spec := w.verifNewSpec(false)
	r := spec.request("new")
	zone, upd, err := w.a.Allocate(r)
	if err != nil {
		return
	}
	verifCover("allocated-custom-expand")
	w.size["new"], w.prio["new"] = r.Size(), r.Priority()
	w.checkStep("new", nil, zone, upd, before, w.snap(ids), ids, false)
}

// VerifC07CommitOutdated: an offer computed before another allocation was
// re-allocated is either refused, or - if Commit goes through - the commit
// still obeys every placement rule against the state it is applied to.
func VerifC07CommitOutdated() {
	w := verifLayout(verifPickLayout())
	w.build(verifParam("prior", 1))
	if len(w.ids) == 0 {
		return
	}
	spec := w.verifNewSpec(false)
	r := spec.request("new")
	o, err := w.a.GetOffer(r)
	if err != nil {
		return
	}
	ids := verifAllIDs(w, "new")
	id := w.ids[verifChoice("target", len(w.ids))]
	nodes := NodeMask(verifChoice("nodes", int(w.allMask())+1))
	s0 := w.snap(ids)
	if _, _, err := w.a.Realloc(id, nodes, 0); err != nil {
		return
	}
	before := w.snap(ids)
	if s0.same(before, ids) {
		return
	}
	zone, upd, err := o.Commit()
	if err != nil {
		verifCover("outdated-offer-refused")
		verifAssert("C07.refused-commit-changes-nothing", before.same(w.snap(ids), ids))
		return
	}
	w.size["new"], w.prio["new"] = r.Size(), r.Priority()
	w.checkStep("new", &spec, zone, upd, before, w.snap(ids), ids, false)
}

// VerifC07ReallocBumped: re-allocation into a zone that is itself
// oversubscribed. Five nodes (four DRAM on a line and a PMEM node) of equal
// symbolic capacity; immovable reservations of symbolic size on the
// overlapping node sets {0,1} and {1,2}, a Burstable request X on {0}; X is
// re-allocated to also cover a solver-chosen node, which may push X itself
// further out; then once more with a type mask. Every successful
// re-allocation obeys the placement rules: the returned zone is the assigned
// one, nothing shrinks, updates are exact.
func VerifC07ReallocBumped() {
	capacity := verifNondetInt64("cap")
	verifAssume(verifAnd(capacity >= 1, capacity <= verifMaxBytes))
	w := verifLayoutCaps(4, []int64{capacity, capacity, capacity, capacity, capacity})
	sizes := []int64{verifNondetInt64("size"), verifNondetInt64("size"), verifNondetInt64("size")}
	for _, s := range sizes {
		verifAssume(verifAnd(s >= 1, s <= verifMaxBytes))
	}
	specs := []verifSpec{
		{limit: sizes[0], affinity: NewNodeMask(0, 1), prio: Reservation},
		{limit: sizes[1], affinity: NewNodeMask(1, 2), prio: Reservation},
		{limit: sizes[2], affinity: NewNodeMask(0), prio: Burstable},
	}
	w.buildFrom(specs)
	if len(w.ids) != 3 {
		return
	}
	x := "r2"
	ids := verifAllIDs(w)
	for k := 0; k < 2; k++ {
		before := w.snap(ids)
		var nodes NodeMask
		var types TypeMask
		if k == 0 {
			nodes = NodeMask(1) << uint(verifChoice("node", w.n))
		} else {
			types = verifTypeMasks[verifChoice("rtypes", len(verifTypeMasks))]
		}
		zone, upd, err := w.a.Realloc(x, nodes, types)
		if err != nil {
			verifCover("bumped-realloc-refused")
			verifAssert("C07.bumped.failed-realloc-noop", before.same(w.snap(ids), ids))
			return
		}
		after := w.snap(ids)
		if after.zones[x] != before.zones[x]|nodes {
			verifCover("requester-pushed-further-by-overcommit")
		}
		verifAssert("C07.bumped.returned-zone-is-assigned", verifAnd(after.live[x], after.zones[x] == zone))
		verifAssert("C07.bumped.realloc-never-removes-nodes", zone&before.zones[x] == before.zones[x])
		verifAssert("C07.bumped.reservations-never-move", verifAnd(after.zones["r0"] == before.zones["r0"], after.zones["r1"] == before.zones["r1"]))
		verifAssert("C07.bumped.updates-exclude-requester-and-unmoved", len(upd) == 0)
	}
}
