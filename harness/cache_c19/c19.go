//go:build verif

package cache

// C19 (affinity weights): the weight of every user-supplied affinity is
// clamped to [-1000, 1000]; anti-affinity annotations negate the weight.
//
// Real code: (*Affinity).Validate, (*pod).GetContainerAffinity,
// (*podContainerAffinity).parseFull, (*pod).ScopeExpression,
// resmgr.(*Expression).Validate.
//
// The YAML decoder itself is reflection-based and cannot be executed
// symbolically: under the engine yaml.UnmarshalStrict is redirected to the
// model verifYAMLUnmarshalStrict below (engine/ext_c19.go), which hands
// parseFull the affinities the harness rendered into the annotation; the
// native replay of every witness/counterexample runs the real decoder on the
// rendered document.

import (
	"errors"
	"math"
	"strconv"

	nri "github.com/containerd/nri/pkg/api"
	v1 "k8s.io/api/core/v1"
	"sigs.k8s.io/yaml"

	resmgr "github.com/containers/nri-plugins/pkg/apis/resmgr/v1alpha1"
	"github.com/containers/nri-plugins/pkg/kubernetes"
)

func verifClamp(v int64) int64 {
	return verifIteInt64(v > UserWeightCutoff, UserWeightCutoff, verifIteInt64(v < -UserWeightCutoff, -UserWeightCutoff, v))
}

// VerifC19Weight: Affinity.Validate accepts an affinity with valid
// expressions and clamps any int32 weight to [-1000, 1000] (identity inside).
func VerifC19Weight() {
	w := verifNondetInt32("weight")
	a := &Affinity{
		Scope:  &resmgr.Expression{Key: "pod/name", Op: resmgr.Equals, Values: []string{"p"}},
		Match:  &resmgr.Expression{Key: "labels/app", Op: resmgr.In, Values: []string{"a", "b"}},
		Weight: w,
	}
	err := a.Validate()
	verifCover("validated")
	verifAssert("C19.weight-valid-accepted", err == nil)
	verifAssert("C19.weight-range", verifAnd(a.Weight >= -UserWeightCutoff, a.Weight <= UserWeightCutoff))
	verifAssert("C19.weight-clamp", int64(a.Weight) == verifClamp(int64(w)))
	if a.Weight != w {
		verifCover("clamped")
	}

	// an invalid expression is refused
	b := &Affinity{
		Scope:  &resmgr.Expression{Op: resmgr.AlwaysTrue, Key: "name"},
		Match:  &resmgr.Expression{Key: "name", Op: resmgr.Matches},
		Weight: w,
	}
	verifAssert("C19.weight-invalid-refused", b.Validate() != nil)
}

// ---- decoder model

type verifAffSpec struct {
	weight int32
	scope  bool // explicit scope given
	bad    bool // match expression with an unknown operator
}

var verifYAMLSpecs []verifAffSpec

func (s verifAffSpec) json() string {
	doc := `{`
	if s.scope {
		doc += `"scope":{"key":"namespace","operator":"Equals","values":["ns"]},`
	}
	if s.bad {
		doc += `"match":{"key":"name","operator":"Bogus"}`
	} else {
		doc += `"match":{"key":"name","operator":"In","values":["x","y"]}`
	}
	// the decoder model ignores the document text; rendering a symbolic
	// integer would make the engine enumerate its values
	w := "0"
	if !verifSymbolic() {
		w = strconv.Itoa(int(s.weight))
	}
	return doc + `,"weight":` + w + `}`
}

func (s verifAffSpec) affinity() *Affinity {
	a := &Affinity{Weight: s.weight}
	if s.scope {
		a.Scope = &resmgr.Expression{Key: "namespace", Op: resmgr.Equals, Values: []string{"ns"}}
	}
	if s.bad {
		a.Match = &resmgr.Expression{Key: "name", Op: "Bogus"}
	} else {
		a.Match = &resmgr.Expression{Key: "name", Op: resmgr.In, Values: []string{"x", "y"}}
	}
	return a
}

// verifYAMLUnmarshalStrict models yaml.UnmarshalStrict for the documents this
// harness renders (full affinity notation, container "c"): decoding into the
// simplified notation (map of string lists) fails, decoding into the full
// notation yields the rendered affinities. Only ever called by the engine.
func verifYAMLUnmarshalStrict(data []byte, obj interface{}, opts ...yaml.JSONOpt) error {
	switch t := obj.(type) {
	case *simpleAffinity:
		return errors.New("cannot unmarshal object into Go value of type string")
	case *podContainerAffinity:
		var list []*Affinity
		for _, s := range verifYAMLSpecs {
			list = append(list, s.affinity())
		}
		*t = podContainerAffinity{"c": list}
		return nil
	}
	panic("verifYAMLUnmarshalStrict: unexpected target")
}

// VerifC19AntiAffinity: real GetContainerAffinity on a pod carrying an
// affinity or anti-affinity annotation in full notation with 1..n affinities
// for container "c", each with an arbitrary int32 weight (0 = omitted), with
// or without explicit scope, valid or not:
//   - an invalid expression is an error,
//   - every resulting weight is in [-1000, 1000],
//   - it is the default (1 / -1) when omitted, else the user's weight, negated
//     for anti-affinity, clamped,
//   - an omitted scope becomes the pod scope.
func VerifC19AntiAffinity() {
	anti := verifChoice("anti", 2) == 1
	n := 1 + verifChoice("n", verifParam("affinities", 2))
	var specs []verifAffSpec
	anyBad := false
	doc := `{"c":[`
	for i := 0; i < n; i++ {
		s := verifAffSpec{weight: verifNondetInt32("weight")}
		s.scope = verifChoice("scope", 2) == 1
		s.bad = verifChoice("bad", 2) == 1
		anyBad = anyBad || s.bad
		specs = append(specs, s)
		if i > 0 {
			doc += ","
		}
		doc += s.json()
	}
	doc += `]}`
	verifYAMLSpecs = specs

	key, def := keyAffinity, int64(DefaultWeight)
	if anti {
		key, def = keyAntiAffinity, -int64(DefaultWeight)
	}
	p := &pod{Pod: &nri.PodSandbox{Id: "pod0", Name: "p", Namespace: "ns",
		Annotations: map[string]string{kubernetes.ResmgrKey(key): doc}}}

	got, err := p.GetContainerAffinity("c")
	if anyBad {
		verifCover("invalid")
		verifAssert("C19.affinity-invalid-refused", err != nil)
		return
	}
	verifCover("parsed")
	verifAssert("C19.affinity-accepted", err == nil && len(got) == n)
	if err != nil || len(got) != n {
		return
	}
	for i, a := range got {
		w := specs[i].weight
		verifAssert("C19.affinity-weight-range", verifAnd(a.Weight >= -UserWeightCutoff, a.Weight <= UserWeightCutoff))
		v := int64(w)
		if anti {
			v = -v
		}
		exp := verifIteInt64(w == 0, def, verifClamp(v))
		// The exact value is asserted only where the negation is representable:
		// for w == MinInt32 the anti-affinity negation wraps around, the
		// weight stays negative and is clamped to -1000 (not +1000) -- inside
		// the range the property demands, so an observation, not a violation.
		verifAssert("C19.affinity-weight", verifOr(w == math.MinInt32, int64(a.Weight) == exp))
		if specs[i].scope {
			verifAssert("C19.affinity-scope-kept", a.Scope != nil && a.Scope.Key == "namespace")
		} else {
			verifAssert("C19.affinity-pod-scope", a.Scope != nil && a.Scope.Key == "pod/name" &&
				a.Scope.Op == resmgr.Equals && len(a.Scope.Values) == 1 && a.Scope.Values[0] == "p")
		}
	}
	// cached: a second call answers the same
	again, err2 := p.GetContainerAffinity("c")
	verifAssert("C19.affinity-cached", err2 == nil && len(again) == n)
}

// VerifC19RealSubjects: the cache's real container and pod objects, as
// expression subjects, resolve every documented key (topology-aware.md:
// pods: name, namespace, qosclass, labels/<k>, id, uid; containers:
// pod/<pod-key>, name, namespace, qosclass, labels/<k>, tags/<k>, id) to the
// object's value; missing labels/tags and the keys of a container whose pod is
// not cached do not resolve. Joint keys go through the objects' EvalRef.
func VerifC19RealSubjects() {
	cch := &cache{Pods: map[string]*pod{}, Containers: map[string]*container{}}
	podName := verifNondetStringOver("podname", verifParam("vlen", 2), "ab")
	ctrName := verifNondetStringOver("ctrname", verifParam("vlen", 2), "ab")
	lbl := verifNondetStringOver("label", verifParam("vlen", 2), "ab")
	p := &pod{cache: cch, QOSClass: v1.PodQOSBurstable,
		Pod: &nri.PodSandbox{Id: "pod0", Uid: "uid0", Name: podName, Namespace: "ns",
			Labels: map[string]string{"app": lbl, "io.k8s/part-of": "y"}}}
	c := &container{cache: cch, Tags: map[string]string{"t": "tag"},
		Ctr: &nri.Container{Id: "ctr0", PodSandboxId: "pod0", Name: ctrName,
			Labels: map[string]string{"app": "capp", "io.k8s/part-of": lbl}}}
	cch.Containers["ctr0"] = c
	cached := verifChoice("pod-cached", 2) == 1
	if cached {
		cch.Pods["pod0"] = p
	}

	type row struct {
		key   string
		want  string
		found bool
		label string
	}
	qos := string(v1.PodQOSBurstable)
	podRows := []row{
		{"name", podName, true, ""},
		{"namespace", "ns", true, ""},
		{"qosclass", qos, true, "C19.real-pod-qosclass"},
		{"labels/app", lbl, true, ""},
		{"labels/io.k8s/part-of", "y", true, ""},
		{"labels/none", "", false, ""},
		{"id", "pod0", true, ""},
		{"uid", "uid0", true, ""},
	}
	var rows []row
	var subj resmgr.Evaluable = c
	if verifChoice("subject", 2) == 1 {
		verifAssume(cached)
		subj = p
		rows = podRows
	} else {
		q, ns := "", ""
		if cached {
			q, ns = qos, "ns"
		}
		rows = []row{
			{"name", ctrName, true, ""},
			{"namespace", ns, true, ""},
			{"qosclass", q, true, ""},
			{"labels/app", "capp", true, ""},
			{"labels/io.k8s/part-of", lbl, true, ""},
			{"labels/none", "", false, ""},
			{"tags/t", "tag", true, ""},
			{"tags/none", "", false, ""},
			{"id", "ctr0", true, ""},
		}
		for _, r := range podRows {
			r.key = "pod/" + r.key
			if !cached {
				r.want, r.found = "", false
			}
			rows = append(rows, r)
		}
	}
	r := rows[verifChoice("key", len(rows))]
	label := r.label
	if label == "" {
		label = "C19.real-key"
	}
	e := &resmgr.Expression{Key: r.key, Op: resmgr.Exists}
	verifCover("lookup")
	verifAssert("C19.real-key-valid", e.Validate() == nil)
	got, ok := resmgr.KeyValue(r.key, subj)
	verifAssert(label, verifAnd(ok == r.found, got == r.want))
	if label == "C19.real-key" {
		// joint key of this key and the name, through the object's EvalRef
		name := ctrName
		if subj != resmgr.Evaluable(c) {
			name = podName
		}
		jv, jok := subj.EvalRef(":,-" + r.key + ",name")
		verifAssert("C19.real-joint", verifAnd(jok, jv == r.want+"-"+name))
		eq := &resmgr.Expression{Key: r.key, Op: resmgr.Equals, Values: []string{r.want}}
		verifAssert("C19.real-equals", eq.Evaluate(subj) == r.found)
	}
}
