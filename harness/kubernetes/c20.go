//go:build verif

package kubernetes

// C20: requirements reconstructed from cgroup parameters are faithful.
// Real code: MilliCPUToShares, SharesToMilliCPU, MilliCPUToQuota, QuotaToMilliCPU.
//
// Every harness splits its integer range into `windows` sub-ranges (one
// symbolic path each): the floating-point division inside the reconstruction
// does not finish over the whole range in one query, but does per window.

const verifMaxMilli = 256000 // 256 CPUs in mCPU: the range the property quantifies over

// verifWindowed returns a symbolic x with lo <= x <= hi, constrained to one
// of n windows chosen by the solver.
func verifWindowed(name string, lo, hi int64, n int) int64 {
	width := (hi - lo + int64(n)) / int64(n)
	w := int64(verifChoice(name+".window", n))
	x := verifNondetInt64(name)
	verifAssume(verifAnd(x >= lo, x <= hi))
	verifAssume(verifAnd(x >= lo+w*width, x < lo+(w+1)*width))
	return x
}

// verifWindowedSubset is verifWindowed restricted to `count` of the n windows,
// evenly spread and rotated by the run's seed (count >= n means all).
func verifWindowedSubset(name string, lo, hi int64, n, count int) int64 {
	if count >= n || count <= 0 {
		return verifWindowed(name, lo, hi, n)
	}
	width := (hi - lo + int64(n)) / int64(n)
	k := verifChoice(name+".window", count)
	w := int64((verifParam("seed", 0) + k*(n/count)) % n)
	x := verifNondetInt64(name)
	verifAssume(verifAnd(x >= lo, x <= hi))
	verifAssume(verifAnd(x >= lo+w*width, x < lo+(w+1)*width))
	return x
}

// VerifC20SharesRoundTrip: for every m in [0, 256000] the request
// reconstructed from cpu.shares is within 1 mCPU of m (2 at the
// minimum-shares floor).
func VerifC20SharesRoundTrip() {
	m := verifWindowed("m", 0, verifMaxMilli, verifParam("windows", 16))
	shares := MilliCPUToShares(m)
	back := SharesToMilliCPU(int64(shares))
	d := back - m
	verifCover("shares-roundtrip")
	verifAssert("C20.shares.range", verifAnd(shares >= MinShares, shares <= MaxShares))
	if shares == MinShares {
		verifCover("shares-floor")
		verifAssert("C20.shares.floor-within-2", verifAnd(d >= -2, d <= 2))
	} else {
		verifCover("shares-above-floor")
		verifAssert("C20.shares.within-1", verifAnd(d >= -1, d <= 1))
	}
}

// VerifC20SharesExact: exact for every multiple of 125 mCPU, hence for all
// whole-CPU requests.
func VerifC20SharesExact() {
	k := verifWindowed("k", 0, verifMaxMilli/125, verifParam("windows", 16))
	m := 125 * k
	back := SharesToMilliCPU(int64(MilliCPUToShares(m)))
	verifCover("shares-multiple-of-125")
	verifAssert("C20.shares.exact-125", back == m)
}

// VerifC20SharesMonotone: the reconstruction is monotone in shares.
func VerifC20SharesMonotone() {
	s := verifWindowed("s", MinShares, MaxShares-1, verifParam("windows", 16))
	verifCover("shares-monotone")
	verifAssert("C20.shares.back-monotone", SharesToMilliCPU(s) <= SharesToMilliCPU(s+1))
}

// VerifC20SharesFwdMonotone: the kubelet encoding is monotone in the request.
func VerifC20SharesFwdMonotone() {
	m := verifWindowed("m", 0, verifMaxMilli-1, verifParam("windows", 16))
	verifCover("shares-fwd-monotone")
	verifAssert("C20.shares.fwd-monotone", MilliCPUToShares(m) <= MilliCPUToShares(m+1))
}

// VerifC20QuotaRoundTrip: CPU limits reconstructed from quota/period are
// exact from 10 mCPU upwards.
func VerifC20QuotaRoundTrip() {
	m := verifWindowed("m", 10, verifMaxMilli, verifParam("quotaWindows", 26))
	q, p := MilliCPUToQuota(m)
	back := QuotaToMilliCPU(q, p)
	verifCover("quota-roundtrip")
	verifAssert("C20.quota.period", p == QuotaPeriod)
	verifAssert("C20.quota.exact", back == m)
}

// VerifC20QuotaSmall: below 10 mCPU the quota is clamped to the minimum
// period; the reconstruction is then 10 mCPU, never less than the request.
func VerifC20QuotaSmall() {
	m := verifNondetInt64("m")
	verifAssume(verifAnd(m >= 0, m < 10))
	q, p := MilliCPUToQuota(m)
	back := QuotaToMilliCPU(q, p)
	verifCover("quota-small")
	if m == 0 {
		verifAssert("C20.quota.zero", verifAnd(back == 0, verifAnd(q == 0, p == 0)))
	} else {
		verifAssert("C20.quota.small-clamped", back == 10)
	}
}

// VerifC20QuotaMonotone: reconstruction is monotone in the quota for the
// default period.
func VerifC20QuotaMonotone() {
	q := verifWindowedSubset("q", MinQuotaPeriod, verifMaxMilli*100-1, verifParam("monoWindows", 104), verifParam("monoWindowsRun", 104))
	verifCover("quota-monotone")
	verifAssert("C20.quota.back-monotone", QuotaToMilliCPU(q, QuotaPeriod) <= QuotaToMilliCPU(q+1, QuotaPeriod))
}
