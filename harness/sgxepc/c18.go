//go:build verif

package main

// C18 (sgx-epc part): the EPC limit of a container is taken from the
// container-specific annotation if present, otherwise the pod-wide form,
// otherwise the bare key; annotations for other containers have no effect.
// Real code: parseEpcLimit.

import (
	"strconv"
)

// verifBytes returns a string of exactly n solver-chosen bytes.
func verifBytes(name string, n int) string {
	b := make([]byte, n)
	for i := range b {
		b[i] = verifNondetUint8(name + ".b" + strconv.Itoa(i))
	}
	return string(b)
}

// VerifC18SgxEpc: annotation map = solver-chosen subset of
// {epc-limit.nri.io/container.<name>, .../container.<other>, .../pod, bare};
// name, other arbitrary byte strings (other != name); every value an
// arbitrary byte string of valLen bytes (a common, solver-chosen length
// 0..maxValLen). parseEpcLimit must behave exactly as strconv.ParseUint on
// the value selected by the reference resolution (limit and error-ness),
// and return (0, nil) if nothing applies.
func VerifC18SgxEpc() {
	name := verifNondetString("name", verifParam("nameLen", 2))
	other := verifNondetString("other", verifParam("otherLen", 3))
	verifAssume(name != other)
	present := verifChoice("present", 16)
	vlen := verifChoice("valLen", verifParam("maxValLen", 2)+1)

	const (
		hasName = 1 << iota
		hasOther
		hasPod
		hasBare
	)

	ann := map[string]string{}
	var vName, vPod, vBare string
	if present&hasPod != 0 {
		vPod = verifBytes("v.pod", vlen)
		ann[epcLimitKey+"/pod"] = vPod
	}
	if present&hasOther != 0 {
		ann[epcLimitKey+"/container."+other] = verifBytes("v.other", vlen)
	}
	if present&hasName != 0 {
		vName = verifBytes("v.name", vlen)
		ann[epcLimitKey+"/container."+name] = vName
	}
	if present&hasBare != 0 {
		vBare = verifBytes("v.bare", vlen)
		ann[epcLimitKey] = vBare
	}
	verifMapOrder(ann)

	exp, expOK := "", true
	switch {
	case present&hasName != 0:
		exp = vName
		verifCover("container-specific")
	case present&hasPod != 0:
		exp = vPod
		verifCover("pod-wide")
	case present&hasBare != 0:
		exp = vBare
		verifCover("bare-key")
	default:
		expOK = false
		verifCover("unset")
	}

	limit, err := parseEpcLimit(ann, name)

	if !expOK {
		verifAssert("C18.sgx.unset", limit == 0 && err == nil)
		return
	}
	want, werr := strconv.ParseUint(exp, 10, 64)
	if werr != nil {
		verifCover("selected-value-invalid")
		verifAssert("C18.sgx.invalid-refused", err != nil)
		return
	}
	verifCover("selected-value-valid")
	verifAssert("C18.sgx.accepted", err == nil)
	verifAssert("C18.sgx.limit", limit == want)
}
