//go:build verif

package main

// C14 (sgx-epc part): no CreateContainer request can crash the plugin, and a
// refused request leaves it able to serve the next one.
// Real code: (*plugin).CreateContainer, containerName, parseEpcLimit.

import (
	"context"
	"io"

	"github.com/containerd/nri/pkg/api"
	"github.com/sirupsen/logrus"
)

// verifInitLog gives the package-level logger (set by main() in production)
// a value; under the engine every logrus call is a no-op.
func verifInitLog() {
	if log == nil {
		log = logrus.New()
		log.SetOutput(io.Discard)
	}
}

// verifNoPanic runs f and reports whether it returned without panicking.
func verifNoPanic(f func()) (ok bool) {
	defer func() {
		if r := recover(); r != nil {
			if s, isStop := r.(verifStop); isStop {
				panic(s)
			}
			ok = false
		}
	}()
	f()
	return true
}

// VerifC14SgxEpc: one CreateContainer request with a solver-chosen subset
// (<= maxAnn entries) of the annotation keys the plugin interprets (for this
// container, for another container, pod-wide, bare) plus an unrelated key,
// values arbitrary byte strings of a common solver-chosen length
// 0..maxValLen (so empty, non-numeric, numeric, signed, mixed), container
// name arbitrary (<= 2 bytes), ctr.Linux nil or present, pod annotations nil
// when empty; followed by a valid request that must succeed.
func VerifC14SgxEpc() {
	verifInitLog()
	p := &plugin{}
	name := verifNondetString("name", verifParam("nameLen", 2))
	other := verifNondetString("other", verifParam("otherLen", 2))
	verifAssume(name != other)
	vlen := verifChoice("valLen", verifParam("maxValLen", 3)+1)
	keys := []string{
		epcLimitKey + "/container." + name,
		epcLimitKey + "/container." + other,
		epcLimitKey + "/pod",
		epcLimitKey,
		"io.kubernetes.cri.sandbox-name",
	}
	var ann map[string]string
	n, maxAnn := 0, verifParam("maxAnn", 3)
	for k, key := range keys {
		if n >= maxAnn || verifChoice("has", 2) == 0 {
			continue
		}
		if ann == nil {
			ann = map[string]string{}
		}
		ann[key] = verifBytes("v"+string(rune('0'+k)), vlen)
		n++
	}
	verifMapOrder(ann)
	pod := &api.PodSandbox{Id: "pod0", Name: "pod", Namespace: "ns", Annotations: ann}
	ctr := &api.Container{Id: "ctr0", PodSandboxId: "pod0", Name: name}
	if verifChoice("linux", 2) == 1 {
		ctr.Linux = &api.LinuxContainer{Resources: &api.LinuxResources{}}
	}

	var (
		adj *api.ContainerAdjustment
		upd []*api.ContainerUpdate
		err error
	)
	returned := verifNoPanic(func() {
		adj, upd, err = p.CreateContainer(context.Background(), pod, ctr)
	})
	verifCover("first-request")
	verifAssert("C14.sgx-epc.no-panic", returned)
	if !returned {
		return
	}
	if err != nil {
		verifCover("first-request-refused")
		verifAssert("C14.sgx-epc.refused-without-effect", adj == nil && upd == nil)
	} else {
		verifCover("first-request-accepted")
		verifAssert("C14.sgx-epc.accepted-has-adjustment", adj != nil)
	}

	// a later, valid request is served
	pod2 := &api.PodSandbox{Id: "pod1", Name: "pod1", Namespace: "ns",
		Annotations: map[string]string{epcLimitKey + "/pod": "4096"}}
	ctr2 := &api.Container{Id: "ctr1", PodSandboxId: "pod1", Name: "c1"}
	var adj2 *api.ContainerAdjustment
	var err2 error
	returned2 := verifNoPanic(func() {
		adj2, _, err2 = p.CreateContainer(context.Background(), pod2, ctr2)
	})
	verifCover("second-request")
	verifAssert("C14.sgx-epc.later-request.no-panic", returned2)
	if !returned2 {
		return
	}
	verifAssert("C14.sgx-epc.later-request.served", err2 == nil && adj2 != nil)
	if err2 == nil && adj2 != nil {
		_, set := adj2.GetLinux().GetResources().GetUnified()["misc.max"]
		verifAssert("C14.sgx-epc.later-request.adjusted", set)
	}
}
