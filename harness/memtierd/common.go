//go:build verif

package main

// Shared helpers of the memtierd harnesses (C18, C14).

import (
	"io"
	"strconv"

	"github.com/containerd/nri/pkg/api"
	"github.com/sirupsen/logrus"
)

// verifInitLog gives the package-level logger (set by main() in production)
// a value; under the engine every logrus call is a no-op.
func verifInitLog() {
	if log == nil {
		log = logrus.New()
		log.SetOutput(io.Discard)
	}
}

// verifBytes returns a string of exactly n solver-chosen bytes.
func verifBytes(name string, n int) string {
	b := make([]byte, n)
	for i := range b {
		b[i] = verifNondetUint8(name + ".b" + strconv.Itoa(i))
	}
	return string(b)
}

// verifNoPanic runs f and reports whether it returned without panicking.
func verifNoPanic(f func()) (ok bool) {
	defer func() {
		if r := recover(); r != nil {
			if s, isStop := r.(verifStop); isStop {
				panic(s)
			}
			ok = false
		}
	}()
	f()
	return true
}

const (
	verifFormCtr   = 0 // <prefix>.memtierd.nri.io/<this container>
	verifFormOther = 1 // <prefix>.memtierd.nri.io/<another container>
	verifFormPod   = 2 // <prefix>.memtierd.nri.io
)

func verifAnnKey(prefix string, form int, name, other string) string {
	switch form {
	case verifFormCtr:
		return prefix + annotationSuffix + "/" + name
	case verifFormOther:
		return prefix + annotationSuffix + "/" + other
	}
	return prefix + annotationSuffix
}

// verifEff is the reference resolution of one annotation prefix.
type verifEff struct {
	has bool
	val string
}

func (e *verifEff) note(form int, val string) {
	switch form {
	case verifFormCtr:
		e.has, e.val = true, val
	case verifFormPod:
		if !e.has {
			e.has, e.val = true, val
		}
	}
}

func verifUnifiedOf(adj *api.ContainerAdjustment) map[string]string {
	return adj.GetLinux().GetResources().GetUnified()
}

func verifBool(b bool) *bool { return &b }
