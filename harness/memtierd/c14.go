//go:build verif

package main

// C14 (memtierd part): no CreateContainer / StartContainer / StopContainer
// request, in any order, for known or unknown containers, can crash the
// plugin; a refused request leaves it able to serve the next one.
// Real code: (*plugin).CreateContainer, StartContainer (up to the directory
// walk of getFullCgroupsPath, which fails: stubbed under the engine, a
// non-existent cgroups directory natively), StopContainer (RemoveAll of a
// non-existent directory), effectiveAnnotations, qosClass, associate,
// pprintCtr, loggedErrorf.

import (
	"context"

	"github.com/containerd/nri/pkg/api"
)

var verifC14Prefixes = []string{"class", "memory.swap.max", "memory.high", "bogus"}

const (
	verifC14CgroupsDir = "/nonexistent-verif-c14/cgroup2"
	verifC14RunDir     = "/nonexistent-verif-c14/run"
)

func verifC14Config(k int) *pluginConfig {
	if k == 0 {
		return nil // started without -config and not configured by the runtime
	}
	return &pluginConfig{
		Classes: []qosClass{
			{Name: "sw", AllowSwap: verifBool(true)},
			{Name: "mt", MemtierdConfig: "policy:\n  cgroups: [$CGROUP2_ABS_PATH]\n"},
		},
	}
}

// VerifC14Memtierd: a sequence of `events` lifecycle events (each Create,
// Start or Stop, so duplicated and out-of-order sequences occur) for one
// container, then a valid CreateContainer for another one.
//
// Plugin: config nil or small (a swap class, a class with a memtierd
// configuration); the map of running memtierds nil, or holding a live entry
// or a nil entry for the container (so Stop meets known, unknown and
// forgotten containers). Pod annotations: any <= maxAnn of 3*prefixes+1 keys
// (the first `prefixes` of {class, memory.swap.max, memory.high, bogus} x
// {this container, another container, pod-level} + an unrelated key), nil
// map when empty; class values empty or
// arbitrary 2-byte strings, other values arbitrary 3-byte strings; all
// iteration orders of both range loops. ctr.Linux nil or present.
//
// Anticipated sub-claim with its own label: StartContainer for a container
// without the Linux sub-message (C14.memtierd.no-panic.no-linux).
func VerifC14Memtierd() {
	verifInitLog()
	opt.runDir = verifC14RunDir
	cfgKind := verifChoice("config", 2)
	p := &plugin{config: verifC14Config(cfgKind), cgroupsDir: verifC14CgroupsDir}
	name, other := "c0", "c1"
	ppName := "ns/pod:" + name

	known := verifChoice("known", 3)
	switch known {
	case 1:
		p.ctrMemtierdEnv = map[string]*memtierdEnv{
			ppName: {ctrDir: verifC14RunDir + "/ns/pod/" + name},
		}
	case 2:
		p.ctrMemtierdEnv = map[string]*memtierdEnv{ppName: nil}
	}

	var ann map[string]string
	n, maxAnn := 0, verifParam("maxAnn", 2)
	classAnnotated := false
	nkeys := 3 * verifParam("prefixes", len(verifC14Prefixes))
	for k := 0; k <= nkeys; k++ {
		if n >= maxAnn || verifChoice("has", 2) == 0 {
			continue
		}
		if ann == nil {
			ann = map[string]string{}
		}
		key := "io.kubernetes.cri.sandbox-name"
		val := ""
		if k < nkeys {
			prefix, form := verifC14Prefixes[k/3], k%3
			key = verifAnnKey(prefix, form, name, other)
			if prefix == "class" {
				classAnnotated = true
				val = verifBytes("v"+string(rune('a'+k)), 2*verifChoice("classlen", 2))
			} else {
				val = verifBytes("v"+string(rune('a'+k)), 3)
			}
		}
		ann[key] = val
		n++
	}
	verifMapOrder(ann)
	pod := &api.PodSandbox{Id: "pod0", Name: "pod", Namespace: "ns", Annotations: ann}
	ctr := &api.Container{Id: "ctr0", PodSandboxId: "pod0", Name: name}
	// only StartContainer of a class with a memtierd configuration reads ctr.Linux
	if !(classAnnotated && cfgKind == 1) || verifChoice("linux", 2) == 1 {
		ctr.Linux = &api.LinuxContainer{CgroupsPath: "kubepods.slice:cri-containerd:ctr0"}
	}

	ctx := context.Background()
	events := verifParam("events", 2)
	for e := 0; e < events; e++ {
		kind := verifChoice("event", 3)
		var err error
		var adj *api.ContainerAdjustment
		var upd []*api.ContainerUpdate
		returned := verifNoPanic(func() {
			switch kind {
			case 0:
				adj, upd, err = p.CreateContainer(ctx, pod, ctr)
			case 1:
				err = p.StartContainer(ctx, pod, ctr)
			case 2:
				upd, err = p.StopContainer(ctx, pod, ctr)
			}
		})
		verifCover("event")
		if kind == 1 && ctr.Linux == nil {
			verifAssert("C14.memtierd.no-panic.no-linux", returned)
		} else {
			verifAssert("C14.memtierd.no-panic", returned)
		}
		if !returned {
			return
		}
		switch kind {
		case 0:
			if err != nil {
				verifAssert("C14.memtierd.create.refused-without-effect", adj == nil && upd == nil)
			}
		case 1:
			// no memtierd can have been launched here (the cgroup directory
			// cannot be found), so Start must not have recorded one
			if known == 0 {
				verifAssert("C14.memtierd.start.records-nothing", len(p.ctrMemtierdEnv) == 0)
			}
		case 2:
			verifCover("stop")
			verifAssert("C14.memtierd.stop.never-fails", err == nil && upd == nil)
			env, still := p.ctrMemtierdEnv[ppName]
			verifAssert("C14.memtierd.stop.forgets", !still || env == nil)
		}
	}

	// a later, valid request is served
	pod2 := &api.PodSandbox{Id: "pod1", Name: "pod1", Namespace: "ns"}
	if cfgKind == 1 {
		pod2.Annotations = map[string]string{"class" + annotationSuffix: "sw"}
	}
	ctr2 := &api.Container{Id: "ctr1", PodSandboxId: "pod1", Name: "c9", Linux: &api.LinuxContainer{}}
	var adj2 *api.ContainerAdjustment
	var err2 error
	returned2 := verifNoPanic(func() {
		adj2, _, err2 = p.CreateContainer(ctx, pod2, ctr2)
	})
	verifCover("later-request")
	verifAssert("C14.memtierd.later-request.no-panic", returned2)
	if !returned2 {
		return
	}
	verifAssert("C14.memtierd.later-request.served", err2 == nil)
	if err2 != nil {
		return
	}
	if cfgKind == 1 {
		u := verifUnifiedOf(adj2)
		verifAssert("C14.memtierd.later-request.adjusted", adj2 != nil && len(u) == 1 && u["memory.swap.max"] == "max")
	} else {
		verifAssert("C14.memtierd.later-request.untouched", adj2 == nil)
	}
	var err3 error
	returned3 := verifNoPanic(func() { err3 = p.StartContainer(ctx, pod2, ctr2) })
	verifAssert("C14.memtierd.later-start.no-panic", returned3)
	verifAssert("C14.memtierd.later-start.served", returned3 && err3 == nil)
}
