//go:build verif

package main

// C18 (memtierd part): container-specific annotations beat pod-level ones,
// annotations for other containers have no effect, an explicitly annotated
// cgroup parameter beats the value derived from the annotated class — for
// every iteration order of the pod's annotation map and of the effective
// annotation map.
// Real code: (*plugin).CreateContainer, effectiveAnnotations, qosClass,
// associate, pprintCtr, loggedErrorf.

import (
	"context"

	"github.com/containerd/nri/pkg/api"
)

var verifC18Prefixes = []string{"class", "memory.high", "memory.swap.max"}

func verifC18Config() *pluginConfig {
	return &pluginConfig{
		Classes: []qosClass{
			{Name: "sw", AllowSwap: verifBool(true)},   // memory.swap.max=max
			{Name: "ns", AllowSwap: verifBool(false)},  // memory.swap.max=0
			{Name: "lo", MemtierdConfig: "policy: {}"}, // nothing at creation
		},
	}
}

// VerifC18Memtierd: the pod carries a solver-chosen subset (<= maxAnn) of the
// nine annotations {class, memory.high, memory.swap.max} x {for this
// container, for another container, pod-level}; parameter values are
// arbitrary 2-byte strings, class values are empty ("no class") or arbitrary
// 2-byte strings (one of the three configured classes or none).
// CreateContainer's result must equal the reference resolution.
func VerifC18Memtierd() {
	verifInitLog()
	p := &plugin{config: verifC18Config()}
	names := []string{"c0", "b"}
	name := names[verifChoice("name", verifParam("names", len(names)))]
	other := ""
	otherDrawn := false

	ann := map[string]string{}
	var eff [3]verifEff
	n, maxAnn := 0, verifParam("maxAnn", 3)
	for pi, prefix := range verifC18Prefixes {
		for form := 0; form < 3; form++ {
			if n >= maxAnn || verifChoice("has", 2) == 0 {
				continue
			}
			if form == verifFormOther && !otherDrawn {
				other = verifNondetString("other", verifParam("otherLen", 2))
				verifAssume(other != name)
				otherDrawn = true
			}
			vlen := 2
			if prefix == "class" && form != verifFormOther {
				vlen = 2 * verifChoice("classlen", 2)
			}
			val := verifBytes("v"+string(rune('0'+3*pi+form)), vlen)
			ann[verifAnnKey(prefix, form, name, other)] = val
			eff[pi].note(form, val)
			n++
		}
	}
	verifMapOrder(ann)
	pod := &api.PodSandbox{Id: "pod0", Name: "pod", Namespace: "ns", Annotations: ann}
	ctr := &api.Container{Id: "ctr0", PodSandboxId: "pod0", Name: name, Linux: &api.LinuxContainer{}}

	// (a) effectiveAnnotations itself
	if verifChoice("mode", 2) == 0 {
		got := effectiveAnnotations(pod, ctr)
		verifCover("effective-annotations")
		expLen := 0
		for pi, prefix := range verifC18Prefixes {
			v, ok := got[prefix]
			verifAssert("C18.memtierd.effective.present", ok == eff[pi].has)
			if eff[pi].has {
				expLen++
				verifAssert("C18.memtierd.effective.value", v == eff[pi].val)
			}
		}
		verifAssert("C18.memtierd.effective.nothing-else", len(got) == expLen)
		return
	}

	// (b) CreateContainer
	adj, upd, err := p.CreateContainer(context.Background(), pod, ctr)
	verifAssert("C18.memtierd.no-updates", upd == nil)

	class, high, swap := eff[0], eff[1], eff[2]
	expHigh, expSwap := verifEff{}, verifEff{}
	if class.has && class.val != "" {
		switch {
		case class.val == "sw":
			expSwap = verifEff{true, "max"}
		case class.val == "ns":
			expSwap = verifEff{true, "0"}
		case class.val == "lo":
		default:
			verifCover("unknown-class-refused")
			verifAssert("C18.memtierd.unknown-class-refused", err != nil && adj == nil)
			return
		}
	}
	if high.has {
		expHigh = high
	}
	if swap.has {
		expSwap = swap
	}
	verifAssert("C18.memtierd.accepted", err == nil)
	if err != nil {
		return
	}
	unified := verifUnifiedOf(adj)
	expN := 0
	if expHigh.has {
		expN++
	}
	if expSwap.has {
		expN++
	}
	if expN == 0 {
		verifCover("no-adjustment")
		verifAssert("C18.memtierd.no-adjustment", adj == nil)
		return
	}
	verifCover("adjusted")
	if class.has && swap.has {
		verifCover("explicit-parameter-and-class")
	}
	verifAssert("C18.memtierd.adjusted", adj != nil)
	verifAssert("C18.memtierd.unified.size", len(unified) == expN)
	gh, okh := unified["memory.high"]
	verifAssert("C18.memtierd.unified.memory.high.present", okh == expHigh.has)
	if expHigh.has {
		verifAssert("C18.memtierd.unified.memory.high", gh == expHigh.val)
	}
	gs, oks := unified["memory.swap.max"]
	verifAssert("C18.memtierd.unified.memory.swap.max.present", oks == expSwap.has)
	if expSwap.has {
		verifAssert("C18.memtierd.unified.memory.swap.max", gs == expSwap.val)
	}
}
