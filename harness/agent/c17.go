//go:build verif

package agent

// C17: configuration precedence — node-specific over group/default, always.
// Real code: Agent.updateNodeConfig, updateGroupConfig, updateConfig,
// sameConfigVersion (and the real early exits of configure/patchConfigStatus
// for an agent running from a local file without a config interface).

import (
	"errors"

	metav1 "k8s.io/apimachinery/pkg/apis/meta/v1"
	"k8s.io/apimachinery/pkg/runtime"
	"k8s.io/apimachinery/pkg/types"
)

type verifCfg struct {
	metav1.TypeMeta
	metav1.ObjectMeta
	valid bool
}

func (c *verifCfg) DeepCopyObject() runtime.Object { return c }
func (c *verifCfg) Validate() error {
	if c.valid {
		return nil
	}
	return errors.New("invalid configuration")
}

var verifUIDs = []types.UID{"uid-a", "uid-b"}

func verifNewCfg(name string) *verifCfg {
	c := &verifCfg{}
	c.UID = verifUIDs[verifChoice(name+".uid", len(verifUIDs))]
	c.Generation = verifNondetInt64(name + ".gen")
	c.valid = verifNondetBool(name + ".valid")
	return c
}

// reference state machine (docs/resource-policy/configuration.md + property C17)
type verifRef struct {
	node, group *verifCfg
	expected    []*verifCfg
}

func verifSame(a, b *verifCfg) bool {
	if a == nil || b == nil {
		return a == nil && b == nil
	}
	return verifAnd(a.UID == b.UID, verifAnd(a.Generation == b.Generation, a.Generation != 0))
}

func (r *verifRef) deliver(c *verifCfg) {
	if c == nil || !c.valid {
		return
	}
	r.expected = append(r.expected, c)
}

func (r *verifRef) onNode(c *verifCfg) {
	if verifSame(c, r.node) {
		return
	}
	r.node = c
	if c == nil {
		c = r.group
	}
	r.deliver(c)
}

func (r *verifRef) onGroup(c *verifCfg) {
	if verifSame(c, r.group) {
		return
	}
	r.group = c
	if r.node != nil {
		return
	}
	r.deliver(c)
}

func verifObj(c *verifCfg) runtime.Object {
	if c == nil {
		return nil
	}
	return c
}

// VerifC17Seq: up to `events` symbolic add/modify/delete events on the two
// watches from the initial state; after every event the sequence of objects
// handed to the plugin callback equals the reference machine's, every
// delivered object passed validation, and the object most recently delivered
// is the one that must be in effect.
func VerifC17Seq() {
	var delivered []*verifCfg
	a := &Agent{configFile: "local-file", nodeName: "n"}
	a.notifyFn = func(cfg interface{}) (bool, error) {
		delivered = append(delivered, cfg.(*verifCfg))
		return false, nil
	}
	ref := &verifRef{}
	n := verifParam("events", 3)
	for k := 0; k < n; k++ {
		before := len(delivered)
		kind := verifChoice("kind", 4)
		var c *verifCfg
		if kind == 0 || kind == 2 {
			c = verifNewCfg("obj")
		}
		nodeBefore := ref.node
		switch kind {
		case 0, 1:
			dup := verifSame(c, ref.node)
			a.updateNodeConfig(verifObj(c))
			ref.onNode(c)
			if dup {
				verifCover("node-duplicate")
				verifAssert("C17.duplicate-no-reconfig", len(delivered) == before)
			}
		case 2, 3:
			dup := verifSame(c, ref.group)
			a.updateGroupConfig(verifObj(c))
			ref.onGroup(c)
			if dup {
				verifCover("group-duplicate")
				verifAssert("C17.duplicate-no-reconfig", len(delivered) == before)
			}
			if nodeBefore != nil {
				verifCover("group-event-with-node-config")
				verifAssert("C17.group-never-replaces-node", len(delivered) == before)
			}
		}
		verifCover("event")
		// (5) nothing invalid is ever delivered
		for _, d := range delivered[before:] {
			verifAssert("C17.never-deliver-invalid", d.valid)
		}
		// sequence equals the reference machine's
		verifAssert("C17.sequence-length", len(delivered) == len(ref.expected))
		if len(delivered) == len(ref.expected) {
			for j := range delivered {
				verifAssert("C17.sequence-element", delivered[j] == ref.expected[j])
			}
		}
		// (1)/(3) what is in effect
		var last *verifCfg
		if len(delivered) > 0 {
			last = delivered[len(delivered)-1]
		}
		if ref.node != nil {
			if ref.node.valid {
				verifCover("node-in-effect")
				verifAssert("C17.node-config-in-effect", last == ref.node)
			}
		} else if ref.group != nil && ref.group.valid {
			verifCover("group-in-effect")
			verifAssert("C17.group-config-in-effect", last == ref.group)
		}
		if kind == 1 && nodeBefore != nil && ref.group != nil && ref.group.valid {
			verifCover("node-deleted-fallback")
			verifAssert("C17.delete-falls-back-to-group", len(delivered) == before+1 && last == ref.group)
		}
	}
}
