//go:build verif

package topologyaware

// Shared fixtures for the topology-aware harnesses (C01, C03, C04, C09, C12,
// C13, C16). The policy under test is the real one: pools are built by the
// real buildPoolsByTopology over a fake machine (sysfs overlay constructor),
// CPUs are picked by the real cpuallocator, memory by the real libmem
// allocator; requests enter through the public AllocateResources /
// ReleaseResources / UpdateResources. Only the pod/container cache objects are
// fakes, which record what the policy tells the runtime.

import (
	"errors"
	"os"
	"strconv"
	"strings"

	cfgapi "github.com/containers/nri-plugins/pkg/apis/config/v1alpha1/resmgr/policy/topologyaware"
	"github.com/containers/nri-plugins/pkg/cpuallocator"
	"github.com/containers/nri-plugins/pkg/resmgr/cache"
	libmem "github.com/containers/nri-plugins/pkg/resmgr/lib/memory"
	system "github.com/containers/nri-plugins/pkg/sysfs"
	"github.com/containers/nri-plugins/pkg/topology"
	"github.com/containers/nri-plugins/pkg/utils/cpuset"
	v1 "k8s.io/api/core/v1"
	"k8s.io/apimachinery/pkg/api/resource"
)

// ---- fake pod / container / cache

type verifPod struct {
	cache.Pod
	name, namespace string
	qos             v1.PodQOSClass
	annotations     map[string]string
}

func (p *verifPod) GetName() string               { return p.name }
func (p *verifPod) GetNamespace() string          { return p.namespace }
func (p *verifPod) GetQOSClass() v1.PodQOSClass   { return p.qos }
func (p *verifPod) GetID() string                 { return "pod-" + p.name }
func (p *verifPod) GetUID() string                { return "uid-" + p.name }
func (p *verifPod) PrettyName() string            { return p.namespace + "/" + p.name }
func (p *verifPod) GetLabel(string) (string, bool) { return "", false }
func (p *verifPod) GetAnnotation(key string) (string, bool) {
	v, ok := p.annotations[key]
	return v, ok
}
func (p *verifPod) GetEffectiveAnnotation(key, container string) (string, bool) {
	if v, ok := p.annotations[key+"/container."+container]; ok {
		return v, true
	}
	if v, ok := p.annotations[key+"/pod"]; ok {
		return v, true
	}
	v, ok := p.annotations[key]
	return v, ok
}
func (p *verifPod) GetContainerAffinity(string) ([]*cache.Affinity, error) { return nil, nil }
func (p *verifPod) GetResmgrLabel(string) (string, bool)                   { return "", false }
func (p *verifPod) GetResmgrAnnotation(string) (string, bool)              { return "", false }
func (p *verifPod) String() string                                         { return p.name }

type verifContainer struct {
	cache.Container
	id, name string
	pod      *verifPod
	milliCPU int64 // CPU request in mCPU
	memLimit int64
	state    cache.ContainerState
	gone     bool // released by a request of the history

	// what the policy told the runtime
	cpus      string
	cpusSet   bool // SetCpusetCpus called at least once
	cpusCalls int
	mems      string
	memsCalls int
	memsEpoch int // request number of the last SetCpusetMems call
	shares    int64
	sharesSet bool
}

func (c *verifContainer) GetPod() (cache.Pod, bool)        { return c.pod, c.pod != nil }
func (c *verifContainer) GetID() string                    { return c.id }
func (c *verifContainer) GetPodID() string                 { return c.pod.GetID() }
func (c *verifContainer) GetName() string                  { return c.name }
func (c *verifContainer) GetNamespace() string             { return c.pod.namespace }
func (c *verifContainer) PrettyName() string               { return c.pod.name + "/" + c.name }
func (c *verifContainer) String() string                   { return c.PrettyName() }
func (c *verifContainer) GetState() cache.ContainerState   { return c.state }
func (c *verifContainer) GetQOSClass() v1.PodQOSClass      { return c.pod.qos }
func (c *verifContainer) GetTopologyHints() topology.Hints { return topology.Hints{} }
func (c *verifContainer) GetAffinity() ([]*cache.Affinity, error) {
	return nil, nil
}
func (c *verifContainer) GetEffectiveAnnotation(key string) (string, bool) {
	return c.pod.GetEffectiveAnnotation(key, c.name)
}
func (c *verifContainer) GetResourceUpdates() (v1.ResourceRequirements, bool) {
	return v1.ResourceRequirements{}, false
}
func (c *verifContainer) GetResourceRequirements() v1.ResourceRequirements {
	r := v1.ResourceRequirements{Requests: v1.ResourceList{}, Limits: v1.ResourceList{}}
	r.Requests[v1.ResourceCPU] = *resource.NewMilliQuantity(c.milliCPU, resource.DecimalSI)
	if c.pod.qos == v1.PodQOSGuaranteed {
		r.Limits[v1.ResourceCPU] = *resource.NewMilliQuantity(c.milliCPU, resource.DecimalSI)
	}
	if c.memLimit > 0 {
		r.Limits[v1.ResourceMemory] = *resource.NewQuantity(c.memLimit, resource.BinarySI)
		r.Requests[v1.ResourceMemory] = *resource.NewQuantity(c.memLimit, resource.BinarySI)
	}
	return r
}
func (c *verifContainer) PreserveCpuResources() bool {
	v, ok := c.GetEffectiveAnnotation(cache.PreserveCpuKey)
	return ok && v == "true"
}
func (c *verifContainer) PreserveMemoryResources() bool {
	v, ok := c.GetEffectiveAnnotation(cache.PreserveMemoryKey)
	return ok && v == "true"
}
func (c *verifContainer) MemoryTypes() (libmem.TypeMask, error) { return 0, nil }
func (c *verifContainer) GetMemoryLimit() int64                  { return c.memLimit }
func (c *verifContainer) GetCpusetCpus() string                  { return c.cpus }
func (c *verifContainer) GetCpusetMems() string                  { return c.mems }
func (c *verifContainer) SetCpusetCpus(v string) {
	c.cpus, c.cpusSet = v, true
	c.cpusCalls++
}
func (c *verifContainer) SetCpusetMems(v string) {
	c.memsCalls++
	c.memsEpoch = verifEpoch
	if v == "" {
		// an empty cpuset.mems in an NRI adjustment/update means "leave as is"
		return
	}
	c.mems = v
}
func (c *verifContainer) SetCPUShares(v int64) { c.shares, c.sharesSet = v, true }

type verifCache struct {
	cache.Cache
	containers map[string]*verifContainer
	implicit   map[string]bool
}

func (c *verifCache) LookupContainer(id string) (cache.Container, bool) {
	ctr, ok := c.containers[id]
	if !ok {
		return nil, false
	}
	return ctr, true
}
func (c *verifCache) Save() error                             { return nil }
// implicit affinities as the real cache keeps them (pkg/resmgr/cache/affinity.go:240-257)
func (c *verifCache) AddImplicitAffinities(implicit map[string]cache.ImplicitAffinity) error {
	if c.implicit == nil {
		c.implicit = map[string]bool{}
	}
	for name := range implicit {
		if c.implicit[name] {
			return errors.New("implicit affinity " + name + " already defined")
		}
	}
	for name := range implicit {
		c.implicit[name] = true
	}
	return nil
}
func (c *verifCache) DeleteImplicitAffinities(names ...string) {
	for _, name := range names {
		delete(c.implicit, name)
	}
}
func (c *verifCache) SetPolicyEntry(string, interface{})      {}
func (c *verifCache) GetPolicyEntry(string, interface{}) bool { return false }
func (c *verifCache) GetContainers() []cache.Container {
	var out []cache.Container
	for _, k := range verifSortedKeys(c.containers) {
		out = append(out, c.containers[k])
	}
	return out
}

func verifSortedKeys(m map[string]*verifContainer) []string {
	var ks []string
	for k := range m {
		ks = append(ks, k)
	}
	for i := 1; i < len(ks); i++ {
		for j := i; j > 0 && ks[j] < ks[j-1]; j-- {
			ks[j], ks[j-1] = ks[j-1], ks[j]
		}
	}
	return ks
}

// verifMemless lists the NUMA nodes of the current fake machine without memory.
var verifMemless = map[int]bool{}

const verifFakeSysfsRoot = "/verif-fake-sysfs"

func verifMeminfoContent(id int) []byte {
	total := 67108864 // kB
	if verifMemless[id] {
		total = 0
	}
	n := strconv.Itoa(id)
	return []byte("Node " + n + " MemTotal:       " + strconv.Itoa(total) + " kB\nNode " + n + " MemFree:        " + strconv.Itoa(total/2) + " kB\n")
}

// verifInstallMeminfo gives every NUMA node a meminfo file that the real
// (*node).MemoryInfo parses: natively real files in a scratch directory,
// under the engine the file-system model below.
func verifInstallMeminfo(sys system.System, nnodes int) {
	root := verifFakeSysfsRoot
	if !verifSymbolic() {
		dir, err := os.MkdirTemp("", "gosymex-sysfs-")
		if err != nil {
			panic(err)
		}
		root = dir
		for id := 0; id < nnodes; id++ {
			d := root + "/node" + strconv.Itoa(id)
			if err := os.MkdirAll(d, 0o755); err != nil {
				panic(err)
			}
			if err := os.WriteFile(d+"/meminfo", verifMeminfoContent(id), 0o644); err != nil {
				panic(err)
			}
		}
	}
	system.VerifSetNodePaths(sys, root)
}

// verifFSReadFile is the engine's model of os.ReadFile for this package: only
// the meminfo files of the fake machine exist.
func verifFSReadFile(name string) ([]byte, error) {
	prefix := verifFakeSysfsRoot + "/node"
	if strings.HasPrefix(name, prefix) && strings.HasSuffix(name, "/meminfo") {
		id, err := strconv.Atoi(name[len(prefix) : len(name)-len("/meminfo")])
		if err == nil {
			return verifMeminfoContent(id), nil
		}
	}
	return nil, os.ErrNotExist
}

// verifEpoch numbers the requests of a history (for "delivered in the same request").
var verifEpoch int

// ---- fake machines

// verifMachine returns machine k and its number of CPUs.
//
//	0: 1 socket, 2 NUMA nodes x 2 cores x 2 threads (8 CPUs): pools socket + 2 NUMA
//	1: 2 sockets x 2 cores x 2 threads, 1 NUMA node each (8 CPUs): pools root + 2 sockets
//	2: 2 sockets x 2 NUMA nodes x 1 core x 2 threads (8 CPUs): pools root + 2 sockets + 4 NUMA
//	3: machine 0 plus a CPU-less PMEM node whose closest DRAM node is NUMA node 0
func verifMachine(k int) (system.System, []*libmem.Node, int) { return verifMachineMem(k, nil) }

// verifMachineMem is verifMachine with the given memory capacity per NUMA
// node (nil: 64 GiB each).
// verifIsolatedCPUs: CPUs the next fake machine reports as kernel-isolated
var verifIsolatedCPUs []int

func verifMachineMem(k int, caps []int64) (system.System, []*libmem.Node, int) {
	var cpus []system.VerifCPU
	var nodes []system.VerifNode
	P := system.PerformanceCore
	switch k {
	case 0:
		for id := 0; id < 8; id++ {
			cpus = append(cpus, system.VerifCPU{ID: id, Node: id / 4, Core: id / 2, Cluster: id / 2, Kind: P, EPP: system.EPPUnknown, CacheGroup: -1})
		}
		nodes = []system.VerifNode{
			{ID: 0, MemType: system.MemoryTypeDRAM, Normal: true, Distance: []int{10, 21}},
			{ID: 1, MemType: system.MemoryTypeDRAM, Normal: true, Distance: []int{21, 10}},
		}
	case 1:
		for id := 0; id < 8; id++ {
			cpus = append(cpus, system.VerifCPU{ID: id, Pkg: id / 4, Node: id / 4, Core: (id % 4) / 2, Cluster: (id % 4) / 2, Kind: P, EPP: system.EPPUnknown, CacheGroup: -1})
		}
		nodes = []system.VerifNode{
			{ID: 0, Pkg: 0, MemType: system.MemoryTypeDRAM, Normal: true, Distance: []int{10, 21}},
			{ID: 1, Pkg: 1, MemType: system.MemoryTypeDRAM, Normal: true, Distance: []int{21, 10}},
		}
	case 3: // as 0, plus a CPU-less PMEM node closest to NUMA node 0
		for id := 0; id < 8; id++ {
			cpus = append(cpus, system.VerifCPU{ID: id, Node: id / 4, Core: id / 2, Cluster: id / 2, Kind: P, EPP: system.EPPUnknown, CacheGroup: -1})
		}
		nodes = []system.VerifNode{
			{ID: 0, MemType: system.MemoryTypeDRAM, Normal: true, Distance: []int{10, 21, 17}},
			{ID: 1, MemType: system.MemoryTypeDRAM, Normal: true, Distance: []int{21, 10, 28}},
			{ID: 2, MemType: system.MemoryTypePMEM, Normal: true, Distance: []int{17, 28, 10}},
		}
	case 6: // 1 socket x 2 dies x 2 NUMA nodes per die x 2 CPUs: socket > die > NUMA node pools
		for id := 0; id < 8; id++ {
			cpus = append(cpus, system.VerifCPU{ID: id, Die: id / 4, Node: id / 2, Core: id / 2, Cluster: id / 2, Kind: P, EPP: system.EPPUnknown, CacheGroup: -1})
		}
		for n := 0; n < 4; n++ {
			d := []int{21, 21, 21, 21}
			for m := 0; m < 4; m++ {
				if m == n {
					d[m] = 10
				} else if m/2 == n/2 {
					d[m] = 12
				}
			}
			nodes = append(nodes, system.VerifNode{ID: n, MemType: system.MemoryTypeDRAM, Normal: true, Distance: d})
		}
	case 5: // 1 socket, 1 NUMA node, 4 cores x 2 threads: a single pool
		for id := 0; id < 8; id++ {
			cpus = append(cpus, system.VerifCPU{ID: id, Core: id / 2, Cluster: id / 2, Kind: P, EPP: system.EPPUnknown, CacheGroup: -1})
		}
		nodes = []system.VerifNode{{ID: 0, MemType: system.MemoryTypeDRAM, Normal: true, Distance: []int{10}}}
	case 4: // as 2, but NUMA node 1 has no memory, plus a CPU-less PMEM node #4 closest to node 1
		for id := 0; id < 8; id++ {
			cpus = append(cpus, system.VerifCPU{ID: id, Pkg: id / 4, Node: id / 2, Core: id / 2, Cluster: id / 2, Kind: P, EPP: system.EPPUnknown, CacheGroup: -1})
		}
		nodes = []system.VerifNode{
			{ID: 0, Pkg: 0, MemType: system.MemoryTypeDRAM, Normal: true, Distance: []int{10, 12, 21, 21, 28}},
			{ID: 1, Pkg: 0, MemType: system.MemoryTypeDRAM, Normal: true, Distance: []int{12, 10, 21, 21, 17}},
			{ID: 2, Pkg: 1, MemType: system.MemoryTypeDRAM, Normal: true, Distance: []int{21, 21, 10, 12, 21}},
			{ID: 3, Pkg: 1, MemType: system.MemoryTypeDRAM, Normal: true, Distance: []int{21, 21, 12, 10, 28}},
			{ID: 4, Pkg: 0, MemType: system.MemoryTypePMEM, Normal: true, Distance: []int{28, 17, 21, 28, 10}},
		}
		verifMemless = map[int]bool{1: true}
	default:
		for id := 0; id < 8; id++ {
			cpus = append(cpus, system.VerifCPU{ID: id, Pkg: id / 4, Node: id / 2, Core: 0, Die: 0, Cluster: 0, Kind: P, EPP: system.EPPUnknown, CacheGroup: -1})
		}
		for n := 0; n < 4; n++ {
			d := []int{21, 21, 21, 21}
			for m := 0; m < 4; m++ {
				if m == n {
					d[m] = 10
				} else if m/2 == n/2 {
					d[m] = 12
				}
			}
			nodes = append(nodes, system.VerifNode{ID: n, Pkg: n / 2, MemType: system.MemoryTypeDRAM, Normal: true, Distance: d})
		}
		// distinct cores per NUMA node
		for i := range cpus {
			cpus[i].Core = cpus[i].ID / 2
			cpus[i].Cluster = cpus[i].ID / 2
		}
	}
	for _, id := range verifIsolatedCPUs {
		cpus[id].Isolated = true
	}
	sys := system.VerifNewSystem(cpus, nodes)
	if k == 4 {
		verifInstallMeminfo(sys, len(nodes))
	}
	var mnodes []*libmem.Node
	for _, n := range nodes {
		capacity := int64(64) << 30
		if caps != nil {
			capacity = caps[n.ID]
		}
		if verifMemless[n.ID] {
			capacity = 0
		}
		mn, err := libmem.NewNode(n.ID, libmem.TypeForSysfs(n.MemType), capacity, true, sys.Node(n.ID).CPUSet(), n.Distance)
		if err != nil {
			panic(err)
		}
		mnodes = append(mnodes, mn)
	}
	return sys, mnodes, len(cpus)
}

type verifWorld struct {
	p     *policy
	cache *verifCache
	ncpu  int
	ctrs  []*verifContainer // containers ever created, by index
}

// verifNewPolicy builds the policy the way Setup does, except that the
// memory allocator gets its nodes from tables (the fake machine has no
// meminfo files) and the CPU constraints (allowed / reserved / isolated) are
// set directly, so that they can be symbolic. Configurations rejected by
// checkConstraints, and those whose reserved cpuset is kernel-isolated, are
// excluded by assumption.
func verifNewPolicy(machine int, allowed, reserved, isolated cpuset.CPUSet, cfg *cfgapi.Config) *verifWorld {
	return verifNewPolicyMem(machine, nil, allowed, reserved, isolated, cfg)
}

func verifNewPolicyMem(machine int, caps []int64, allowed, reserved, isolated cpuset.CPUSet, cfg *cfgapi.Config) *verifWorld {
	sys, mnodes, ncpu := verifMachineMem(machine, caps)
	c := &verifCache{containers: map[string]*verifContainer{}}
	p := &policy{cfg: cfg, cache: c, sys: sys}
	p.cpuAllocator = cpuallocator.NewCPUAllocator(sys)
	ma, err := libmem.NewAllocator(libmem.WithNodes(mnodes))
	if err != nil {
		panic(err)
	}
	p.memAllocator = ma
	opt = cfg
	defaultPrio = cfg.DefaultCPUPriority.Value()
	p.allocations = p.newAllocations()
	p.allowed, p.reserved, p.isolated = allowed, reserved, isolated
	if err := p.buildPoolsByTopology(); err != nil {
		panic(err)
	}
	return &verifWorld{p: p, cache: c, ncpu: ncpu}
}

func verifDefaultConfig() *cfgapi.Config {
	return &cfgapi.Config{PinCPU: true, PinMemory: true, DefaultCPUPriority: cfgapi.PriorityNone}
}

// verifSymbolicConstraints draws allowed / reserved / isolated cpusets the way
// an accepted configuration can produce them.
func verifSymbolicConstraints(ncpu int, mode int) (allowed, reserved, isolated cpuset.CPUSet) {
	all := cpuset.New()
	for i := 0; i < ncpu; i++ {
		all = all.Union(cpuset.New(i))
	}
	switch mode {
	case 0: // all CPUs allowed, CPU 0 reserved, nothing isolated
		return all, cpuset.New(0), cpuset.New()
	case 1: // symbolic reserved set, no isolated CPUs
		reserved = verifNondetCPUSet("reserved", ncpu)
		verifAssume(!reserved.IsEmpty())
		return all, reserved, cpuset.New()
	case 3: // CPU 0 reserved, symbolic kernel-isolated set
		isolated = verifNondetCPUSet("isolated", ncpu)
		verifAssume(isolated.Intersection(cpuset.New(0)).IsEmpty())
		if within := verifParam("isolatedWithin", 0); within != 0 {
			// bound: isolated CPUs only among the CPUs of this bit mask
			bound := cpuset.New()
			for i := 0; i < ncpu; i++ {
				if within&(1<<uint(i)) != 0 {
					bound = bound.Union(cpuset.New(i))
				}
			}
			verifAssume(isolated.IsSubsetOf(bound))
		}
		return all, cpuset.New(0), isolated
	default: // everything symbolic
		allowed = verifNondetCPUSet("allowed", ncpu)
		reserved = verifNondetCPUSet("reserved", ncpu)
		isolated = verifNondetCPUSet("isolated", ncpu)
		verifAssume(verifAnd(!reserved.IsEmpty(), reserved.IsSubsetOf(allowed)))
		verifAssume(verifAnd(isolated.IsSubsetOf(allowed), isolated.Intersection(reserved).IsEmpty()))
		return allowed, reserved, isolated
	}
}

var verifNamespaces = []string{"default", "kube-system"}
var verifQoS = []v1.PodQOSClass{v1.PodQOSGuaranteed, v1.PodQOSBurstable, v1.PodQOSBestEffort}

// newContainer creates container #k with solver-chosen QoS class, namespace
// and CPU request.
func (w *verifWorld) newContainer(maxMilli int64) *verifContainer {
	k := len(w.ctrs)
	id := "c" + string(rune('0'+k))
	pod := &verifPod{name: "p" + id, namespace: verifNamespaces[verifChoice("namespace", verifParam("namespaces", len(verifNamespaces)))],
		qos: verifQoS[verifChoice("qos", verifParam("qosClasses", len(verifQoS)))], annotations: map[string]string{}}
	if verifParam("cpuPreserve", 0) != 0 && verifChoice("cpuPreserve", 2) == 1 {
		// the container opts out of CPU pinning (it still has a CPU request)
		pod.annotations[cache.PreserveCpuKey] = "true"
		verifCover("cpu-preserve-annotated")
	}
	if verifParam("hideHT", 0) != 0 && verifChoice("hideHT", 2) == 1 {
		// the container asks to run on one thread per core
		pod.annotations[hideHyperthreadsKey] = "true"
		verifCover("hide-hyperthreads-annotated")
	}
	m := verifNondetInt64("mcpu")
	verifAssume(verifAnd(m >= 0, m <= maxMilli))
	if pod.qos == v1.PodQOSBestEffort {
		verifAssume(m == 0)
	}
	c := &verifContainer{id: id, name: id, pod: pod, milliCPU: m, state: cache.ContainerStateCreated}
	w.ctrs = append(w.ctrs, c)
	w.cache.containers[id] = c
	return c
}

// pinned returns the cpuset the runtime was last told for c.
func (c *verifContainer) pinned() cpuset.CPUSet {
	if !c.cpusSet || c.cpus == "" {
		return cpuset.New()
	}
	return cpuset.MustParse(c.cpus)
}
