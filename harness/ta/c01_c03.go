//go:build verif

package topologyaware

// C01 (exclusive CPUs are exclusive) and C03 (pool capacity never
// oversubscribed, grants match requests): bounded histories through the
// public AllocateResources / ReleaseResources from the state the real
// constructors build, with symbolic CPU constraints and symbolic requests.

import (
	cfgapi "github.com/containers/nri-plugins/pkg/apis/config/v1alpha1/resmgr/policy/topologyaware"
	"github.com/containers/nri-plugins/pkg/resmgr/cache"
	"github.com/containers/nri-plugins/pkg/utils/cpuset"
	v1 "k8s.io/api/core/v1"
)

func (w *verifWorld) grantOf(c *verifContainer) *grant {
	g, ok := w.p.allocations.grants[c.id]
	if !ok {
		return nil
	}
	return g.(*grant)
}

// checkC01 asserts the exclusivity invariants on the current state (one
// conjunction, i.e. one solver query, per label).
func (w *verifWorld) checkC01() {
	p := w.p
	disjoint, notInOther, notInPool, withinAllowed, reservedClassOnly, neverMixed, notInGrantless := true, true, true, true, true, true, true
	for i, c := range w.ctrs {
		g := w.grantOf(c)
		if g == nil {
			continue
		}
		excl := g.exclusive
		for j, o := range w.ctrs {
			if i == j {
				continue
			}
			if og := w.grantOf(o); og != nil {
				if i < j {
					disjoint = verifAnd(disjoint, excl.Intersection(og.exclusive).IsEmpty())
				}
				// a container still holding a grant must not be pinned to somebody else's exclusive CPUs
				notInOther = verifAnd(notInOther, excl.Intersection(o.pinned()).IsEmpty())
			} else if !o.gone {
				// a live container that lost its grant (refused update) keeps the
				// pinning the runtime has
				notInGrantless = verifAnd(notInGrantless, excl.Intersection(o.pinned()).IsEmpty())
			}
		}
		for _, pool := range p.pools {
			notInPool = verifAnd(notInPool, excl.Intersection(pool.FreeSupply().SharableCPUs()).IsEmpty())
		}
		pin := c.pinned()
		withinAllowed = verifAnd(withinAllowed, pin.IsSubsetOf(p.allowed))
		touchesReserved := !pin.Intersection(p.reserved).IsEmpty()
		reservedClass := c.pod.namespace == "kube-system"
		reservedClassOnly = verifAnd(reservedClassOnly, verifImplies(touchesReserved, reservedClass))
		neverMixed = verifAnd(neverMixed, verifImplies(touchesReserved, pin.IsSubsetOf(p.reserved)))
	}
	verifAssert("C01.exclusive-disjoint", disjoint)
	verifAssert("C01.exclusive-not-in-other-cpuset", notInOther)
	verifAssert("C01.exclusive-not-in-cpuset-of-container-left-without-grant", notInGrantless)
	verifAssert("C01.exclusive-not-in-shared-pool", notInPool)
	verifAssert("C01.pinned-within-allowed", withinAllowed)
	verifAssert("C01.reserved-only-for-reserved-class", reservedClassOnly)
	verifAssert("C01.reserved-never-mixed", neverMixed)
}

// subtreeGranted sums the shared / reserved capacity granted in the subtree of n.
func subtreeGranted(n Node) (shared, reserved int) {
	n.DepthFirst(func(m Node) {
		shared += m.FreeSupply().GrantedShared()
		reserved += m.FreeSupply().GrantedReserved()
	})
	return
}

func isStrictAncestor(a, n Node) bool {
	for m := n.Parent(); !m.IsNil(); m = m.Parent() {
		if m.IsSameNode(a) {
			return true
		}
	}
	return false
}

// checkC03 asserts the capacity invariant and the consequence the property
// names (non-empty cpuset for every CPU-pinned container). Two situations
// that are recorded as known findings get their own labels so that every
// other violation of the same sentence stays a hard failure:
//   - *.below-slicing-pool: the oversubscribed pool is a strict descendant of
//     a pool that holds an exclusive (sliced) grant;
//   - *.pool-without-sharable-cpus: the container's pool was configured with
//     no sharable CPU at all (all of them reserved/isolated);
//   - C03.pinned-nonempty.below-slicing-pool: the container's pool is a strict
//     descendant of a pool that holds an exclusive (sliced) grant (which may
//     have taken every shared CPU of the descendant).
func (w *verifWorld) checkC03() {
	p := w.p
	capShared, capSharedBelow, capReserved, ledger := true, true, true, true
	for _, pool := range p.pools {
		shared, reserved := subtreeGranted(pool)
		// the same sums from the grants themselves (what the containers were promised)
		promisedShared, promisedReserved := 0, 0
		for _, c := range w.ctrs {
			if g := w.grantOf(c); g != nil && (g.node.IsSameNode(pool) || isStrictAncestor(pool, g.node)) {
				promisedShared += g.SharedPortion()
				promisedReserved += g.ReservedPortion()
			}
		}
		ledger = verifAnd(ledger, verifAnd(shared == promisedShared, reserved == promisedReserved))
		fs := pool.FreeSupply()
		below := false
		for _, c := range w.ctrs {
			if g := w.grantOf(c); g != nil && isStrictAncestor(g.node, pool) {
				below = verifOr(below, !g.exclusive.IsEmpty())
			}
		}
		ok := shared <= 1000*fs.SharableCPUs().Size()
		capShared = verifAnd(capShared, verifOr(below, ok))
		capSharedBelow = verifAnd(capSharedBelow, verifImplies(below, ok))
		capReserved = verifAnd(capReserved, reserved <= 1000*fs.ReservedCPUs().Size())
	}
	// kernel-isolated CPUs stay in the isolated sets: never sharable, never in
	// the cpuset of a grant's shared part
	isoOK := true
	for _, pool := range p.pools {
		fs := pool.FreeSupply()
		isoOK = verifAnd(isoOK, verifAnd(fs.SharableCPUs().Intersection(p.isolated).IsEmpty(), fs.IsolatedCPUs().IsSubsetOf(p.isolated)))
		isoOK = verifAnd(isoOK, fs.IsolatedCPUs().Intersection(fs.SharableCPUs()).IsEmpty())
	}
	for _, c := range w.ctrs {
		if g := w.grantOf(c); g != nil {
			isoOK = verifAnd(isoOK, g.SharedCPUs().Intersection(p.isolated).IsEmpty())
		}
	}
	verifAssert("C03.isolated-cpus-never-shared", isoOK)
	verifAssert("C03.cap.shared", capShared)
	verifAssert("C03.cap.shared.below-slicing-pool", capSharedBelow)
	verifAssert("C03.cap.reserved", capReserved)
	verifAssert("C03.ledger-equals-promised", ledger)
	nonempty, nonemptyNoSharable, nonemptyBelow := true, true, true
	for _, c := range w.ctrs {
		g := w.grantOf(c)
		if g == nil || g.cpuType == cpuPreserve {
			continue
		}
		ok := verifAnd(c.cpusSet, c.cpus != "")
		noSharable := g.node.GetSupply().SharableCPUs().IsEmpty()
		below := false
		for _, o := range w.ctrs {
			if og := w.grantOf(o); og != nil && isStrictAncestor(og.node, g.node) {
				below = verifOr(below, !og.exclusive.IsEmpty())
			}
		}
		nonempty = verifAnd(nonempty, verifOr(verifOr(noSharable, below), ok))
		nonemptyNoSharable = verifAnd(nonemptyNoSharable, verifImplies(noSharable, ok))
		nonemptyBelow = verifAnd(nonemptyBelow, verifImplies(verifAnd(below, !noSharable), ok))
	}
	verifAssert("C03.pinned-nonempty", nonempty)
	verifAssert("C03.pinned-nonempty.pool-without-sharable-cpus", nonemptyNoSharable)
	verifAssert("C03.pinned-nonempty.below-slicing-pool", nonemptyBelow)
}

// checkEligibility asserts that container c got exactly the exclusive CPUs the
// documented rules give it, and the kubelet encoding of its capacity as weight.
func (w *verifWorld) checkEligibility(c *verifContainer) {
	g := w.grantOf(c)
	if g == nil || g.cpuType == cpuPreserve {
		// a cpu.preserve container is left as it is: no exclusive CPUs, no cpu.shares from the policy
		return
	}
	m := int(c.milliCPU)
	wantExcl := 0
	if c.pod.qos == v1.PodQOSGuaranteed && c.pod.namespace != "kube-system" && m >= 1000 {
		// no annotations, default preferences: whole-CPU part of an integral
		// request, or of a 1 <= request < 2 mixed one
		if m%1000 == 0 || m < 2000 {
			wantExcl = m / 1000
		}
	}
	verifAssert("C03.exclusive-count", g.exclusive.Size() == wantExcl)
	portion := g.cpuPortion
	if portion == 0 {
		portion = 1000 * g.exclusive.Size()
	}
	verifAssert("C03.cpu-shares", verifAnd(c.sharesSet, c.shares == int64(cache.MilliCPUToShares(int64(portion)))))
	if wantExcl > 0 {
		if !g.exclusive.Intersection(w.p.isolated).IsEmpty() {
			verifCover("isolated-cpus-granted")
		}
		iso := g.exclusive.Intersection(w.p.isolated)
		verifAssert("C03.isolated-all-or-none", verifOr(iso.IsEmpty(), iso.Equals(g.exclusive)))
	}
}

type verifSupplySnap struct {
	iso, res, sha    []cpuset.CPUSet
	gShared, gReserv []int
}

// supplySnapshot records every pool's free CPU sets and granted counters.
func (w *verifWorld) supplySnapshot() *verifSupplySnap {
	s := &verifSupplySnap{}
	for _, pool := range w.p.pools {
		f := pool.FreeSupply()
		s.iso = append(s.iso, f.IsolatedCPUs())
		s.res = append(s.res, f.ReservedCPUs())
		s.sha = append(s.sha, f.SharableCPUs())
		s.gShared = append(s.gShared, f.GrantedShared())
		s.gReserv = append(s.gReserv, f.GrantedReserved())
	}
	return s
}

func (s *verifSupplySnap) same(o *verifSupplySnap) bool {
	ok := true
	for i := range s.iso {
		ok = verifAnd(ok, verifAnd(s.iso[i].Equals(o.iso[i]), verifAnd(s.res[i].Equals(o.res[i]), s.sha[i].Equals(o.sha[i]))))
		ok = verifAnd(ok, verifAnd(s.gShared[i] == o.gShared[i], s.gReserv[i] == o.gReserv[i]))
	}
	return ok
}

// verifHistory runs up to `ops` allocate/release requests with symbolic
// containers against a policy with (optionally symbolic) CPU constraints and
// calls check after the initial state and after every request.
func verifHistory(check func(w *verifWorld), onAllocated func(w *verifWorld, c *verifContainer)) {
	machine := verifParam("machine", 0)
	_, _, ncpu := verifMachine(machine)
	allowed, reserved, isolated := verifSymbolicConstraints(ncpu, verifParam("constraints", 1))
	cfg := verifDefaultConfig()
	if verifParam("constraints", 1) == 3 && verifParam("preferIsolatedChoice", 1) != 0 {
		// preferIsolatedCPUs: not configured (implicit false), true or false
		switch verifChoice("preferIsolated", 3) {
		case 1:
			v := true
			cfg.PreferIsolated = &v
		case 2:
			v := false
			cfg.PreferIsolated = &v
		}
	}
	w := verifNewPolicy(machine, allowed, reserved, isolated, cfg)
	verifCover("policy-built")
	check(w)
	ops := verifParam("ops", 2)
	for k := 0; k < ops; k++ {
		op := 0
		if len(w.ctrs) > 0 && verifParam("releases", 1) != 0 {
			op = verifChoice("op", 2+verifParam("updates", 0))
		}
		switch op {
		case 0:
			c := w.newContainer(int64(verifParam("maxMilli", 3000)))
			before := w.supplySnapshot()
			err := w.p.AllocateResources(c)
			if err != nil {
				verifCover("allocate-refused")
				verifAssert("C03.failed-allocation-leaves-no-grant", w.grantOf(c) == nil)
				verifAssert("C03.failed-allocation-is-noop", before.same(w.supplySnapshot()))
			} else {
				verifCover("allocated")
				if onAllocated != nil {
					onAllocated(w, c)
				}
			}
		case 1:
			c := w.ctrs[verifChoice("victim", len(w.ctrs))]
			if w.grantOf(c) == nil {
				return
			}
			err := w.p.ReleaseResources(c)
			c.gone = true
			verifCover("released")
			verifAssert("C09.release-succeeds", verifAnd(err == nil, w.grantOf(c) == nil))
		case 2:
			// the runtime updates the CPU request of a live container
			c := w.ctrs[verifChoice("victim", len(w.ctrs))]
			if c.gone {
				return
			}
			m := verifNondetInt64("newmcpu")
			verifAssume(verifAnd(m >= 0, m <= int64(verifParam("maxMilli", 3000))))
			if c.pod.qos == v1.PodQOSBestEffort {
				verifAssume(m == 0)
			}
			c.milliCPU = m
			if err := w.p.UpdateResources(c); err != nil {
				verifCover("update-refused")
			} else {
				verifCover("updated")
			}
		}
		check(w)
	}
}

// VerifC01History: exclusivity invariants after every request of a bounded
// history through the public API.
func VerifC01History() {
	verifHistory(func(w *verifWorld) { w.checkC01() }, nil)
}

// VerifC03History: capacity invariants after every request, and eligibility /
// cpu.shares of every admitted container.
func VerifC03History() {
	verifHistory(func(w *verifWorld) { w.checkC03() }, func(w *verifWorld, c *verifContainer) { w.checkEligibility(c) })
}

var _ = cpuset.New

// kernel-isolated CPU sets of the fake machine used by VerifC01Reinstate
var verifC01Isolated = [][]int{{6, 7}, {4, 5}, {2, 3, 6, 7}, {5}}

// VerifC01Reinstate: exclusivity across a reconfiguration. On a machine whose
// sysfs reports kernel-isolated CPUs a container is admitted, the unchanged
// configuration is re-applied through the real Reconfigure (the grants are
// reinstated on freshly built pools, as after a restart), and another
// container is admitted: the C01 sentences hold after every step.
func VerifC01Reinstate() {
	machine := verifParam("machine", 0)
	ids := verifC01Isolated[verifChoice("isolated", verifParam("isolatedSets", len(verifC01Isolated)))]
	_, _, ncpu := verifMachine(machine)
	allowed, reserved, _ := verifSymbolicConstraints(ncpu, 0)
	mkcfg := func(prefer int) *cfgapi.Config {
		cfg := verifTAConfig("cpuset:0")
		switch prefer {
		case 1:
			v := true
			cfg.PreferIsolated = &v
		case 2:
			v := false
			cfg.PreferIsolated = &v
		}
		return cfg
	}
	prefer := verifChoice("preferIsolated", 3)
	verifIsolatedCPUs = ids
	w := verifNewPolicy(machine, allowed, reserved, cpuset.New(ids...), mkcfg(prefer))
	verifIsolatedCPUs = nil
	w.checkC01()
	for k := 0; k < verifParam("before", 1); k++ {
		c := w.newContainer(int64(verifParam("maxMilli", 2000)))
		if err := w.p.AllocateResources(c); err == nil {
			verifCover("allocated-before")
		}
		w.checkC01()
	}
	if err := w.p.Reconfigure(mkcfg(prefer)); err != nil {
		verifAssert("C01.reinstate.unchanged-config-accepted", false)
		return
	}
	verifCover("reconfigured")
	verifAssert("C01.reinstate.isolated-set-kept", w.p.isolated.Equals(cpuset.New(ids...)))
	w.checkC01()
	for k := 0; k < verifParam("after", 1); k++ {
		c := w.newContainer(int64(verifParam("maxMilli", 2000)))
		if err := w.p.AllocateResources(c); err == nil {
			verifCover("allocated-after")
		}
		w.checkC01()
	}
}
