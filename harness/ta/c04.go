//go:build verif

package topologyaware

// C04 (topology-aware part): memory pinning follows the allocator and never
// oversubscribes a node set; zone updates of other containers are delivered
// in the same request.

import (
	libmem "github.com/containers/nri-plugins/pkg/resmgr/lib/memory"
)

// VerifC04TAMemory: machine 0 with symbolic memory capacities on its two
// NUMA nodes; containers with symbolic memory limits are admitted (and
// released) through the public API so that zones are driven into overcommit
// handling. After every request, for every container holding a grant:
// the memory nodes it was told equal the allocator's assigned zone, are
// non-empty and consist of nodes with memory; allocations confined to any
// node set fit its capacity; every container whose zone changed in this
// request was told so in this request.
func VerifC04TAMemory() {
	machine := verifParam("memMachine", 0) // 0: two DRAM nodes; 3: plus a CPU-less PMEM node
	_, mn, ncpu := verifMachine(machine)
	nnodes := len(mn)
	allowed, reserved, isolated := verifSymbolicConstraints(ncpu, 0)
	var caps []int64
	maxMem := int64(verifParam("maxMem", 1<<20))
	for i := 0; i < nnodes; i++ {
		if verifParam("symbolicCaps", 1) == 0 {
			// concrete capacities: maxMem per node (0 for a memory-less node)
			c := maxMem
			if machine == 4 && i == 1 {
				c = 0
			}
			caps = append(caps, c)
			continue
		}
		c := verifNondetInt64("memcap")
		verifAssume(verifAnd(c >= 1, c <= maxMem))
		caps = append(caps, c)
	}
	w := verifNewPolicyMem(machine, caps, allowed, reserved, isolated, verifDefaultConfig())
	ma := w.p.memAllocator
	zonesBefore := map[string]libmem.NodeMask{}
	ops := verifParam("ops", 2)
	for k := 0; k < ops; k++ {
		verifEpoch = k + 1
		if len(w.ctrs) > 0 && verifParam("releases", 1) != 0 && verifChoice("op", 2) == 1 {
			c := w.ctrs[verifChoice("victim", len(w.ctrs))]
			if w.grantOf(c) == nil {
				return
			}
			w.p.ReleaseResources(c)
			verifCover("mem-released")
		} else {
			c := w.newContainer(int64(verifParam("maxMilli", 500)))
			c.memLimit = verifNondetInt64("memlimit")
			verifAssume(verifAnd(c.memLimit >= 0, c.memLimit <= maxMem))
			if err := w.p.AllocateResources(c); err != nil {
				verifCover("mem-allocate-refused")
			} else {
				verifCover("mem-allocated")
			}
		}
		pinOK, nonEmpty, delivered := true, true, true
		for _, c := range w.ctrs {
			g := w.grantOf(c)
			zone, assigned := ma.AssignedZone(c.id)
			if g == nil {
				verifAssert("C04.ta.released-has-no-assignment", !assigned)
				delete(zonesBefore, c.id)
				continue
			}
			if !assigned {
				continue
			}
			pinOK = verifAnd(pinOK, c.mems == zone.MemsetString())
			nonEmpty = verifAnd(nonEmpty, verifAnd(zone != 0, zone&^ma.Masks().NodesWithMem() == 0))
			if old, ok := zonesBefore[c.id]; !ok || old != zone {
				delivered = verifAnd(delivered, c.memsEpoch == verifEpoch)
			}
			zonesBefore[c.id] = zone
		}
		verifAssert("C04.ta.mems-equal-assigned-zone", pinOK)
		verifAssert("C04.ta.zone-nonempty-with-memory", nonEmpty)
		verifAssert("C04.ta.zone-change-delivered-in-same-request", delivered)
		// fit: allocations confined to a node set fit its capacity
		fitZone, fitUnion := true, true
		for z := libmem.NodeMask(1); z < libmem.NodeMask(1)<<uint(nnodes); z++ {
			var used, capacity int64
			for i := 0; i < nnodes; i++ {
				if z&(1<<uint(i)) != 0 {
					capacity += caps[i]
				}
			}
			isZone, n := false, 0
			for _, c := range w.ctrs {
				if w.grantOf(c) == nil {
					continue
				}
				cz, ok := ma.AssignedZone(c.id)
				if !ok {
					continue
				}
				if cz&z == cz {
					used += c.memLimit
					n++
				}
				if cz == z {
					isZone = true
				}
			}
			if n == 0 {
				continue
			}
			if isZone {
				fitZone = verifAnd(fitZone, used <= capacity)
			} else {
				fitUnion = verifAnd(fitUnion, used <= capacity)
			}
		}
		verifAssert("C04.ta.fit.assigned-zone", fitZone)
		verifAssert("C04.ta.fit.union", fitUnion)
	}
}
