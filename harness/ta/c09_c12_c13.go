//go:build verif

package topologyaware

// C09 (no leaks), C12 (opt-outs honoured), C13 (reconfiguration) on the real
// topology-aware policy, through its public entry points.

import (
	"time"

	cfgapi "github.com/containers/nri-plugins/pkg/apis/config/v1alpha1/resmgr/policy/topologyaware"
	"github.com/containers/nri-plugins/pkg/resmgr/cache"
	"github.com/containers/nri-plugins/pkg/resmgr/events"
	libmem "github.com/containers/nri-plugins/pkg/resmgr/lib/memory"
	policyapi "github.com/containers/nri-plugins/pkg/resmgr/policy"
	v1 "k8s.io/api/core/v1"
	metav1 "k8s.io/apimachinery/pkg/apis/meta/v1"
)

func (w *verifWorld) libmemEmpty() bool {
	n := 0
	w.p.memAllocator.ForeachRequest(nil, func(*libmem.Request) bool { n++; return true })
	return n == 0
}

// VerifC09TAQuiescence: after a history of allocations (some of which may be
// refused) releasing every container returns the policy to the state it had
// right after applying its configuration: every pool's free CPU sets and
// granted counters, no grants, no memory allocations. A released container
// never holds a grant again while others come and go.
func VerifC09TAQuiescence() {
	machine := verifParam("machine", 0)
	_, _, ncpu := verifMachine(machine)
	allowed, reserved, isolated := verifSymbolicConstraints(ncpu, verifParam("constraints", 0))
	cfg := verifDefaultConfig()
	if verifParam("constraints", 0) == 3 {
		// kernel-isolated CPUs: preferIsolatedCPUs not configured, true or false
		switch verifChoice("preferIsolated", 3) {
		case 1:
			v := true
			cfg.PreferIsolated = &v
		case 2:
			v := false
			cfg.PreferIsolated = &v
		}
	}
	w := verifNewPolicy(machine, allowed, reserved, isolated, cfg)
	pristine := w.supplySnapshot()
	allocs := verifParam("allocs", 2)
	for k := 0; k < allocs; k++ {
		c := w.newContainer(int64(verifParam("maxMilli", 4000)))
		if err := w.p.AllocateResources(c); err != nil {
			verifCover("quiescence-allocate-refused")
		}
	}
	// release everything, in a solver-chosen order of the first victim
	first := verifChoice("first", len(w.ctrs))
	order := []int{first}
	for i := range w.ctrs {
		if i != first {
			order = append(order, i)
		}
	}
	for n, i := range order {
		c := w.ctrs[i]
		c.state = cache.ContainerStateExited
		err := w.p.ReleaseResources(c)
		verifAssert("C09.release-never-fails", err == nil)
		verifAssert("C09.released-holds-nothing", w.grantOf(c) == nil)
		for _, j := range order[:n] {
			verifAssert("C09.stopped-never-regains", w.grantOf(w.ctrs[j]) == nil)
		}
	}
	verifCover("quiescent")
	verifAssert("C09.ta.pools-pristine", pristine.same(w.supplySnapshot()))
	verifAssert("C09.ta.no-grants", len(w.p.allocations.grants) == 0)
	verifAssert("C09.ta.no-memory-allocations", w.libmemEmpty())
}

// ---- C12

const (
	verifOptNone = iota
	verifOptCPUPreserveContainer
	verifOptCPUPreservePod
	verifOptCPUPreserveBare
	verifOptMemPreserve
	verifOptNoPinCPU
	verifOptNoPinMemory
	verifOptCount
)

// VerifC12TAOptOut: container c0 is opted out of CPU pinning (cpu.preserve at
// container, pod or bare level, or PinCPU disabled) or of memory pinning
// (memory.preserve, or PinMemory disabled); it is created, then other
// containers are created and released around it. c0 is never told a cpuset
// (CPU opt-out) and never told memory nodes different from the ones it had
// (memory opt-out).
func VerifC12TAOptOut() {
	machine := verifParam("machine", 0)
	_, _, ncpu := verifMachine(machine)
	allowed, reserved, isolated := verifSymbolicConstraints(ncpu, 0)
	kind := 1 + verifChoice("optout", verifOptCount-1)
	cfg := verifDefaultConfig()
	if kind == verifOptNoPinCPU {
		cfg.PinCPU = false
	}
	if kind == verifOptNoPinMemory {
		cfg.PinMemory = false
	}
	w := verifNewPolicy(machine, allowed, reserved, isolated, cfg)
	c0 := w.newContainer(int64(verifParam("maxMilli", 2000)))
	switch kind {
	case verifOptCPUPreserveContainer:
		c0.pod.annotations[cache.PreserveCpuKey+"/container."+c0.name] = "true"
	case verifOptCPUPreservePod:
		c0.pod.annotations[cache.PreserveCpuKey+"/pod"] = "true"
	case verifOptCPUPreserveBare:
		c0.pod.annotations[cache.PreserveCpuKey] = "true"
	case verifOptMemPreserve:
		c0.pod.annotations[cache.PreserveMemoryKey] = "true"
	}
	c0.mems = "0" // what the runtime had given it
	memsBefore := c0.mems
	if err := w.p.AllocateResources(c0); err != nil {
		return
	}
	verifCover("optout-created")
	ops := verifParam("ops", 2)
	for k := 0; k < ops; k++ {
		if len(w.ctrs) > 1 && verifChoice("op", 2) == 1 {
			v := w.ctrs[1+verifChoice("victim", len(w.ctrs)-1)]
			if w.grantOf(v) != nil {
				w.p.ReleaseResources(v)
			}
		} else {
			c := w.newContainer(int64(verifParam("maxMilli", 2000)))
			w.p.AllocateResources(c)
		}
	}
	verifCover("optout-history-done")
	switch kind {
	case verifOptCPUPreserveContainer, verifOptCPUPreservePod, verifOptCPUPreserveBare, verifOptNoPinCPU:
		verifAssert("C12.ta.cpu-optout-never-told-cpuset", c0.cpusCalls == 0)
		if kind == verifOptNoPinCPU {
			for _, c := range w.ctrs[1:] {
				verifAssert("C12.ta.pincpu-off-nobody-told-cpuset", c.cpusCalls == 0)
			}
		}
	case verifOptMemPreserve:
		verifAssert("C12.ta.memory-preserve-mems-unchanged", c0.mems == memsBefore)
	case verifOptNoPinMemory:
		verifAssert("C12.ta.pinmemory-off-mems-unchanged", c0.mems == memsBefore)
	}
}

// VerifC12TAOptOutReconfigure: the opt-outs of VerifC12TAOptOut across a
// reconfiguration: c0 is created opted out, the unchanged configuration is
// re-applied through the real Reconfigure (grants are cloned and reinstated),
// another container is admitted: c0 is still never told a cpuset / other
// memory nodes.
func VerifC12TAOptOutReconfigure() {
	machine := verifParam("machine", 0)
	_, _, ncpu := verifMachine(machine)
	allowed, reserved, isolated := verifSymbolicConstraints(ncpu, 0)
	kind := 1 + verifChoice("optout", verifOptCount-1)
	mkcfg := func() *cfgapi.Config {
		cfg := verifTAConfig("cpuset:0")
		if kind == verifOptNoPinCPU {
			cfg.PinCPU = false
		}
		if kind == verifOptNoPinMemory {
			cfg.PinMemory = false
		}
		return cfg
	}
	w := verifNewPolicy(machine, allowed, reserved, isolated, mkcfg())
	c0 := w.newContainer(int64(verifParam("maxMilli", 2000)))
	switch kind {
	case verifOptCPUPreserveContainer:
		c0.pod.annotations[cache.PreserveCpuKey+"/container."+c0.name] = "true"
	case verifOptCPUPreservePod:
		c0.pod.annotations[cache.PreserveCpuKey+"/pod"] = "true"
	case verifOptCPUPreserveBare:
		c0.pod.annotations[cache.PreserveCpuKey] = "true"
	case verifOptMemPreserve:
		c0.pod.annotations[cache.PreserveMemoryKey] = "true"
	}
	c0.mems = "0" // what the runtime had given it
	memsBefore := c0.mems
	if err := w.p.AllocateResources(c0); err != nil {
		return
	}
	if err := w.p.Reconfigure(mkcfg()); err != nil {
		verifAssert("C12.ta.reconfigure.unchanged-config-accepted", false)
		return
	}
	verifCover("optout-reconfigured")
	for k := 0; k < verifParam("after", 1); k++ {
		c := w.newContainer(int64(verifParam("maxMilli", 2000)))
		w.p.AllocateResources(c)
	}
	switch kind {
	case verifOptCPUPreserveContainer, verifOptCPUPreservePod, verifOptCPUPreserveBare, verifOptNoPinCPU:
		verifAssert("C12.ta.reconfigure.cpu-optout-never-told-cpuset", c0.cpusCalls == 0)
	case verifOptMemPreserve:
		verifAssert("C12.ta.reconfigure.memory-preserve-mems-unchanged", c0.mems == memsBefore)
	case verifOptNoPinMemory:
		verifAssert("C12.ta.reconfigure.pinmemory-off-mems-unchanged", c0.mems == memsBefore)
	}
}

// ---- C13

type verifCtrView struct {
	cpus, mems string
	shares     int64
}

func (w *verifWorld) containerViews() []verifCtrView {
	var vs []verifCtrView
	for _, c := range w.ctrs {
		vs = append(vs, verifCtrView{c.cpus, c.mems, c.shares})
	}
	return vs
}

func verifSameViews(a, b []verifCtrView) bool {
	ok := len(a) == len(b)
	for i := range a {
		ok = verifAnd(ok, verifAnd(a[i].cpus == b[i].cpus, verifAnd(a[i].mems == b[i].mems, a[i].shares == b[i].shares)))
	}
	return ok
}

func verifTAConfig(reserved string) *cfgapi.Config {
	cfg := verifDefaultConfig()
	cfg.ReservedResources = cfgapi.Constraints{cfgapi.CPU: cfgapi.Amount(reserved)}
	return cfg
}

// VerifC13TAReconfigure: after a short history, (a) re-applying the unchanged
// configuration through the real Reconfigure changes no container's resources
// and no pool's free capacity; (b) a rejected configuration (reserved cpuset
// outside the available CPUs) followed by re-application of the previous one
// (what resmgr.reconfigure does) leaves the same state.
func VerifC13TAReconfigure() {
	machine := verifParam("machine", 0)
	_, _, ncpu := verifMachine(machine)
	allowed, reserved, isolated := verifSymbolicConstraints(ncpu, 0)
	cfg := verifTAConfig("cpuset:0")
	w := verifNewPolicy(machine, allowed, reserved, isolated, cfg)
	allocs := verifParam("allocs", 2)
	for k := 0; k < allocs; k++ {
		c := w.newContainer(int64(verifParam("maxMilli", 2000)))
		w.p.AllocateResources(c)
	}
	views, supplies := w.containerViews(), w.supplySnapshot()
	grantsBefore := len(w.p.allocations.grants)
	if verifChoice("scenario", 2) == 0 {
		err := w.p.Reconfigure(verifTAConfig("cpuset:0"))
		verifCover("reconfigured-unchanged")
		verifAssert("C13.ta.unchanged-config-accepted", err == nil)
	} else {
		err := w.p.Reconfigure(verifTAConfig("cpuset:63"))
		verifCover("reconfigure-rejected")
		verifAssert("C13.ta.invalid-config-rejected", err != nil)
		err = w.p.Reconfigure(cfg)
		verifAssert("C13.ta.previous-config-reapplied", err == nil)
	}
	verifAssert("C13.ta.grants-kept", len(w.p.allocations.grants) == grantsBefore)
	verifAssert("C13.ta.container-resources-unchanged", verifSameViews(views, w.containerViews()))
	verifAssert("C13.ta.pool-capacities-unchanged", supplies.same(w.supplySnapshot()))
}

// VerifC12TAMemoryPreserveUnderPressure: a memory.preserve container with a
// symbolic memory limit on a machine with two NUMA nodes of symbolic capacity;
// ordinary containers with symbolic limits are then admitted so that the
// memory allocator has to widen zones. The preserved container is never told
// memory nodes different from the ones it had.
func VerifC12TAMemoryPreserveUnderPressure() {
	_, _, ncpu := verifMachine(0)
	allowed, reserved, isolated := verifSymbolicConstraints(ncpu, 0)
	caps := []int64{verifNondetInt64("memcap"), verifNondetInt64("memcap")}
	maxMem := int64(verifParam("maxMem", 1<<20))
	for _, c := range caps {
		verifAssume(verifAnd(c >= 1, c <= maxMem))
	}
	w := verifNewPolicyMem(0, caps, allowed, reserved, isolated, verifDefaultConfig())
	c0 := w.newContainer(int64(verifParam("maxMilli", 500)))
	c0.pod.annotations[cache.PreserveMemoryKey] = "true"
	c0.memLimit = verifNondetInt64("memlimit")
	verifAssume(verifAnd(c0.memLimit >= 0, c0.memLimit <= maxMem))
	c0.mems = "0"
	before := c0.mems
	if err := w.p.AllocateResources(c0); err != nil {
		return
	}
	verifCover("mem-preserve-created")
	for k := 0; k < verifParam("ops", 2); k++ {
		c := w.newContainer(int64(verifParam("maxMilli", 500)))
		c.memLimit = verifNondetInt64("memlimit")
		verifAssume(verifAnd(c.memLimit >= 0, c.memLimit <= maxMem))
		w.p.AllocateResources(c)
	}
	verifCover("mem-preserve-pressure-done")
	verifAssert("C12.ta.memory-preserve-mems-unchanged", c0.mems == before)
}

// VerifC13TAReinstateAfterRelease: a history with a release before the
// reconfiguration (two Guaranteed 2-CPU containers, the first one released,
// then a Burstable container of symbolic size that may fill a pool exactly):
// re-applying the unchanged configuration must reinstate every grant verbatim,
// i.e. change no container's resources, also when a pool is exactly full.
func VerifC13TAReinstateAfterRelease() {
	machine := []int{5, 0}[verifChoice("machine", 2)] // single-pool machine, 3-pool machine
	_, _, ncpu := verifMachine(machine)
	allowed, reserved, isolated := verifSymbolicConstraints(ncpu, 0)
	cfg := verifTAConfig("cpuset:0")
	w := verifNewPolicy(machine, allowed, reserved, isolated, cfg)
	mk := func(qos v1.PodQOSClass, m int64) *verifContainer {
		k := len(w.ctrs)
		id := "c" + string(rune('0'+k))
		pod := &verifPod{name: "p" + id, namespace: "default", qos: qos, annotations: map[string]string{}}
		c := &verifContainer{id: id, name: id, pod: pod, milliCPU: m, state: cache.ContainerStateCreated}
		w.ctrs = append(w.ctrs, c)
		w.cache.containers[id] = c
		return c
	}
	x := mk(v1.PodQOSGuaranteed, 2000)
	y := mk(v1.PodQOSGuaranteed, 2000)
	if w.p.AllocateResources(x) != nil || w.p.AllocateResources(y) != nil {
		return
	}
	w.p.ReleaseResources(x)
	x.gone = true
	m := verifNondetInt64("fill")
	verifAssume(verifAnd(m >= 0, m <= 7000))
	z := mk(v1.PodQOSBurstable, m)
	if w.p.AllocateResources(z) != nil {
		verifCover("fill-refused")
		return
	}
	verifCover("filled")
	views, supplies := w.containerViews(), w.supplySnapshot()
	err := w.p.Reconfigure(verifTAConfig("cpuset:0"))
	verifAssert("C13.ta.unchanged-config-accepted", err == nil)
	verifAssert("C13.ta.container-resources-unchanged", verifSameViews(views, w.containerViews()))
	verifAssert("C13.ta.pool-capacities-unchanged", supplies.same(w.supplySnapshot()))
}

// VerifC09TAMemQuiescence: as VerifC09TAQuiescence under memory pressure:
// two NUMA nodes of symbolic capacity, containers with symbolic memory limits
// admitted through offers that displace earlier containers, then everything
// released: the memory allocator is back to its initial state (no request, no
// usage in any node set, free = capacity).
func VerifC09TAMemQuiescence() {
	_, _, ncpu := verifMachine(0)
	allowed, reserved, isolated := verifSymbolicConstraints(ncpu, 0)
	caps := []int64{verifNondetInt64("memcap"), verifNondetInt64("memcap")}
	maxMem := int64(verifParam("maxMem", 1<<20))
	for _, c := range caps {
		verifAssume(verifAnd(c >= 1, c <= maxMem))
	}
	w := verifNewPolicyMem(0, caps, allowed, reserved, isolated, verifDefaultConfig())
	ma := w.p.memAllocator
	allocs := verifParam("allocs", 2)
	for k := 0; k < allocs; k++ {
		c := w.newContainer(int64(verifParam("maxMilli", 500)))
		c.memLimit = verifNondetInt64("memlimit")
		verifAssume(verifAnd(c.memLimit >= 0, c.memLimit <= maxMem))
		if err := w.p.AllocateResources(c); err != nil {
			verifCover("mem-quiescence-allocate-refused")
		}
	}
	moved := false
	for _, c := range w.ctrs {
		if z, ok := ma.AssignedZone(c.id); ok && z == 3 {
			moved = true
		}
	}
	if moved {
		verifCover("some-zone-widened")
	}
	first := 0
	if verifParam("orders", 1) != 0 {
		first = verifChoice("first", len(w.ctrs))
	}
	order := []int{first}
	for i := range w.ctrs {
		if i != first {
			order = append(order, i)
		}
	}
	for _, i := range order {
		c := w.ctrs[i]
		c.state = cache.ContainerStateExited
		verifAssert("C09.release-never-fails", w.p.ReleaseResources(c) == nil)
	}
	verifCover("mem-quiescent")
	verifAssert("C09.ta.no-memory-allocations", w.libmemEmpty())
	pristine := true
	for z := libmem.NodeMask(1); z <= 3; z++ {
		var capacity int64
		for i := 0; i < 2; i++ {
			if z&(1<<uint(i)) != 0 {
				capacity += caps[i]
			}
		}
		pristine = verifAnd(pristine, verifAnd(ma.ZoneUsage(z) == 0, ma.ZoneFree(z) == capacity))
		pristine = verifAnd(pristine, ma.ZoneNumUsers(z) == 0)
	}
	verifAssert("C09.ta.memory-zones-pristine", pristine)
}

// ---- C11 (topology-aware part)

// VerifC11TAResync: a restart whose predecessor had recorded assignments the
// runtime never received (the reply carrying them was lost). A first policy
// instance admits containers and records their cpusets in the cache; a second
// instance on the same machine and configuration is synchronised with the
// same containers the way Synchronize does it (policy.Sync): every container
// that holds a grant afterwards was told its cpuset and memory nodes again in
// this incarnation, so that the reply of Synchronize carries them.
func VerifC11TAResync() {
	machine := verifParam("machine", 0)
	_, _, ncpu := verifMachine(machine)
	allowed, reserved, isolated := verifSymbolicConstraints(ncpu, 0)
	w := verifNewPolicy(machine, allowed, reserved, isolated, verifDefaultConfig())
	for k := 0; k < verifParam("allocs", 2); k++ {
		c := w.newContainer(int64(verifParam("maxMilli", 2000)))
		w.p.AllocateResources(c)
	}
	// restart
	w2 := verifNewPolicy(machine, allowed, reserved, isolated, verifDefaultConfig())
	var live []cache.Container
	for _, c := range w.ctrs {
		if w.grantOf(c) == nil {
			continue
		}
		c.cpusCalls, c.memsCalls = 0, 0
		w2.ctrs = append(w2.ctrs, c)
		w2.cache.containers[c.id] = c
		live = append(live, c)
	}
	if len(live) == 0 {
		return
	}
	verifCover("restarted-with-containers")
	err := w2.p.Sync(live, nil)
	verifAssert("C11.ta.sync-succeeds", err == nil)
	told := true
	for _, c := range w2.ctrs {
		if w2.grantOf(c) == nil {
			continue
		}
		told = verifAnd(told, verifAnd(c.cpusCalls > 0, c.memsCalls > 0))
	}
	verifAssert("C11.ta.resync-tells-every-assignment-again", told)
}

// VerifC13TAReconfigureAccepted: an ACCEPTED configuration change. After a
// short history the available cpuset shrinks (or the reserved CPU moves), so
// that grants may no longer be reinstated verbatim and containers are
// re-allocated: afterwards every container that holds a grant satisfies the
// C01 / C03 sentences under the new configuration (exclusive CPUs inside the
// new available set and disjoint, ledgers equal to what the grants promise,
// capacity respected).
func VerifC13TAReconfigureAccepted() {
	machine := verifParam("machine", 0)
	_, _, ncpu := verifMachine(machine)
	allowed, reserved, isolated := verifSymbolicConstraints(ncpu, 0)
	cfg := verifTAConfig("cpuset:0")
	w := verifNewPolicy(machine, allowed, reserved, isolated, cfg)
	for k := 0; k < verifParam("allocs", 2); k++ {
		c := w.newContainer(int64(verifParam("maxMilli", 2000)))
		if verifParam("memChoice", 1) != 0 {
			// memory limits decide the order in which the fall-back re-allocates containers
			c.memLimit = int64(verifChoice("mem", 3)) << 30
		}
		w.p.AllocateResources(c)
	}
	w.checkC01()
	newCfg := verifTAConfig("cpuset:0")
	switch verifChoice("change", 4) {
	case 0:
		newCfg.AvailableResources = cfgapi.Constraints{cfgapi.CPU: "cpuset:0,2-7"}
	case 1:
		newCfg.AvailableResources = cfgapi.Constraints{cfgapi.CPU: "cpuset:0-3,5-7"}
	case 2:
		newCfg.AvailableResources = cfgapi.Constraints{cfgapi.CPU: "cpuset:0-5"}
	case 3:
		newCfg = verifTAConfig("cpuset:1")
	}
	if err := w.p.Reconfigure(newCfg); err != nil {
		// containers that do not fit the new configuration make it fail: the
		// rejected-update sentences are VerifC13TAReconfigure's
		verifCover("changed-config-rejected")
		return
	}
	verifCover("changed-config-accepted")
	verifAssert("C13.ta.accepted.every-container-keeps-an-allocation", len(w.p.allocations.grants) == func() int {
		n := 0
		for _, c := range w.ctrs {
			if w.grantOf(c) != nil {
				n++
			}
		}
		return n
	}())
	inside := true
	for _, c := range w.ctrs {
		if g := w.grantOf(c); g != nil {
			inside = verifAnd(inside, g.ExclusiveCPUs().IsSubsetOf(w.p.allowed))
			inside = verifAnd(inside, c.pinned().IsSubsetOf(w.p.allowed))
		}
	}
	verifAssert("C13.ta.accepted.assignments-inside-new-available-set", inside)
	w.checkC01()
	w.checkC03()
}

// VerifC13TAImplicitAffinities: the implicit affinities registered in the
// cache follow the configuration in effect across a sequence of accepted
// reconfigurations that switch colocatePods / colocateNamespaces on and off,
// and a rejected update (reserved cpuset outside the available CPUs) leaves
// them as they were.
func VerifC13TAImplicitAffinities() {
	machine := verifParam("machine", 0)
	_, _, ncpu := verifMachine(machine)
	allowed, reserved, isolated := verifSymbolicConstraints(ncpu, 0)
	mk := func(bits int, reservedSet string) *cfgapi.Config {
		cfg := verifTAConfig(reservedSet)
		cfg.ColocatePods, cfg.ColocateNamespaces = bits&1 != 0, bits&2 != 0
		return cfg
	}
	cur := verifChoice("initial", 4)
	w := verifNewPolicy(machine, allowed, reserved, isolated, mk(cur, "cpuset:0"))
	if err := w.p.registerImplicitAffinities(); err != nil { // what Setup does
		verifAssert("C13.ta.implicit.registered-at-setup", false)
		return
	}
	for k := 0; k < verifParam("updates", 2); k++ {
		next := verifChoice("next", 4)
		if verifChoice("rejected", 2) == 1 {
			err := w.p.Reconfigure(mk(next, "cpuset:63"))
			verifCover("implicit-update-rejected")
			verifAssert("C13.ta.implicit.invalid-config-rejected", err != nil)
			// what resmgr.reconfigure does: re-apply the configuration in force
			verifAssert("C13.ta.implicit.previous-config-reapplied", w.p.Reconfigure(mk(cur, "cpuset:0")) == nil)
		} else {
			if err := w.p.Reconfigure(mk(next, "cpuset:0")); err != nil {
				return
			}
			cur = next
			verifCover("implicit-update-accepted")
		}
		verifAssert("C13.ta.implicit.colocate-pods-follows-config", w.cache.implicit[PolicyName+":colocate-pods"] == (cur&1 != 0))
		verifAssert("C13.ta.implicit.colocate-namespaces-follows-config", w.cache.implicit[PolicyName+":colocate-namespaces"] == (cur&2 != 0))
	}
}

// ---- cold start (C12: memory.preserve containers are left alone by it too)

var verifTimers []func()

// verifAfterFunc is the engine's model of time.AfterFunc: the callback is
// queued and fired by the harness (verifFireTimers); natively the real timer
// runs.
func verifAfterFunc(d time.Duration, f func()) *time.Timer {
	verifTimers = append(verifTimers, f)
	return &time.Timer{}
}

// verifTimerStop is the engine's model of (*time.Timer).Stop.
func verifTimerStop(t *time.Timer) bool { return true }

// verifFireTimers lets every armed timer expire: under the engine the queued
// callbacks run now, natively the harness waits for the (1 ms) timers.
func verifFireTimers() {
	if verifSymbolic() {
		fs := verifTimers
		verifTimers = nil
		for _, f := range fs {
			f()
		}
		return
	}
	time.Sleep(100 * time.Millisecond)
}

// verifColdStartPreference is the engine's model of coldStartPreference (its
// yaml decoding cannot be executed): a container whose pod carries the
// cold-start annotation asks for a 1 ms cold start.
func verifColdStartPreference(pod cache.Pod, container cache.Container) (ColdStartPreference, error) {
	if _, ok := pod.GetEffectiveAnnotation(preferColdStartKey, container.GetName()); !ok {
		return ColdStartPreference{}, nil
	}
	return ColdStartPreference{Duration: metav1.Duration{Duration: time.Millisecond}}, nil
}

// VerifC12TAColdStart: a container opted out of memory pinning
// (memory.preserve, or pinMemory off) or an ordinary one, with or without a
// cold-start request, is created and started; the cold-start timer, if one
// was armed, expires and its event is delivered: the opted-out container is
// never told memory nodes.
func VerifC12TAColdStart() {
	machine := verifParam("machine", 3) // the machine with a PMEM node
	_, _, ncpu := verifMachine(machine)
	allowed, reserved, isolated := verifSymbolicConstraints(ncpu, 0)
	kind := []int{verifOptNone, verifOptMemPreserve, verifOptNoPinMemory}[verifChoice("optout", 3)]
	cfg := verifDefaultConfig()
	if kind == verifOptNoPinMemory {
		cfg.PinMemory = false
	}
	w := verifNewPolicy(machine, allowed, reserved, isolated, cfg)
	var sent []*events.Policy
	w.p.options = &policyapi.BackendOptions{SendEvent: func(e interface{}) error {
		if pe, ok := e.(*events.Policy); ok {
			sent = append(sent, pe)
		}
		return nil
	}}
	verifTimers = nil
	c0 := w.newContainer(int64(verifParam("maxMilli", 1000)))
	if kind == verifOptMemPreserve {
		c0.pod.annotations[cache.PreserveMemoryKey] = "true"
	}
	cold := verifChoice("cold-start", 2) == 1
	if cold {
		c0.pod.annotations[preferColdStartKey] = "duration: 1ms"
	}
	c0.mems = "0"
	memsBefore := c0.mems
	if err := w.p.AllocateResources(c0); err != nil {
		return
	}
	c0.state = cache.ContainerStateRunning
	if _, err := w.p.HandleEvent(&events.Policy{Type: events.ContainerStarted, Source: "harness", Data: cache.Container(c0)}); err != nil {
		verifAssert("C12.ta.coldstart.started-event-handled", false)
		return
	}
	verifFireTimers()
	for _, e := range sent {
		verifCover("cold-start-timer-expired")
		w.p.HandleEvent(e)
	}
	verifCover("cold-start-history-done")
	if kind != verifOptNone {
		verifAssert("C12.ta.coldstart.memory-optout-mems-unchanged", c0.mems == memsBefore)
	} else if cold && len(sent) > 0 {
		verifCover("ordinary-container-repinned-after-cold-start")
	}
}
