//go:build verif

package topologyaware

// C16 (pool tree part): for every accepted available/reserved/isolated CPU
// configuration (symbolic cpusets) on each fake machine, the tree built by the
// real buildPoolsByTopology is well-formed.

import (
	cfgapi "github.com/containers/nri-plugins/pkg/apis/config/v1alpha1/resmgr/policy/topologyaware"
	"github.com/containers/nri-plugins/pkg/cpuallocator"
	libmem "github.com/containers/nri-plugins/pkg/resmgr/lib/memory"
	system "github.com/containers/nri-plugins/pkg/sysfs"
	"github.com/containers/nri-plugins/pkg/utils/cpuset"
	idset "github.com/intel/goresctrl/pkg/utils"
)

// verifSubsetIDs: every memory node (a NUMA node that has memory) of a is in b.
// A memory-less CPU node that a pool lists because of CPU locality is not a
// memory node in the sense of the property.
func verifSubsetIDs(a, b idset.IDSet) bool {
	for _, id := range a.Members() {
		if verifMemless[id] {
			continue
		}
		if !b.Has(id) {
			return false
		}
	}
	return true
}

func verifMemset(n Node) idset.IDSet {
	all := idset.NewIDSet()
	for _, t := range []memoryType{memoryDRAM, memoryPMEM, memoryHBM} {
		all.Add(n.GetMemset(t).Members()...)
	}
	return all
}

// VerifC16Tree: single tree, virtual root iff several sockets, sibling pools
// disjoint, parent contains children, root holds every allowed CPU, each
// pool's CPUs split disjointly into isolated / reserved / sharable, memory
// nodes of a child are a subset of its parent's and the root has them all.
func VerifC16Tree() {
	machine := []int{0, 1, 2, 3, 4, 6}[verifChoice("machine", verifParam("machines", 6))]
	sys, _, ncpu := verifMachine(machine)
	allowed, reserved, isolated := verifSymbolicConstraints(ncpu, verifParam("constraints", 2))
	w := verifNewPolicy(machine, allowed, reserved, isolated, verifDefaultConfig())
	verifC16CheckTree(w.p, machine, sys, allowed, reserved, isolated)
}

// verifC16CheckTree asserts the C16 tree sentences on the pools of p.
func verifC16CheckTree(p *policy, machine int, sys system.System, allowed, reserved, isolated cpuset.CPUSet) {
	verifCover("tree-built")

	// shape
	verifAssert("C16.single-root", p.root != nil && p.root.Parent().IsNil())
	verifAssert("C16.virtual-root-iff-multisocket", (p.root.Kind() == VirtualNode) == (sys.SocketCount() > 1))
	count := 0
	p.root.DepthFirst(func(n Node) { count++ })
	verifAssert("C16.all-pools-reachable", count == len(p.pools) && count == len(p.nodes))

	splitOK, unionOK, parentOK, siblingOK, memOK := true, true, true, true, true
	for _, n := range p.pools {
		s := n.GetSupply()
		iso, res, sha := s.IsolatedCPUs(), s.ReservedCPUs(), s.SharableCPUs()
		splitOK = verifAnd(splitOK, verifAnd(iso.Intersection(res).IsEmpty(), verifAnd(iso.Intersection(sha).IsEmpty(), res.Intersection(sha).IsEmpty())))
		all := iso.Union(res).Union(sha)
		unionOK = verifAnd(unionOK, all.IsSubsetOf(allowed))
		unionOK = verifAnd(unionOK, verifAnd(iso.Equals(all.Intersection(isolated)), res.Equals(all.Intersection(reserved))))
		// free supply starts as a copy of the capacity
		f := n.FreeSupply()
		unionOK = verifAnd(unionOK, verifAnd(f.IsolatedCPUs().Equals(iso), verifAnd(f.ReservedCPUs().Equals(res), f.SharableCPUs().Equals(sha))))
		kids := n.Children()
		childUnion := cpuset.New()
		for i, c := range kids {
			cs := c.GetSupply()
			call := cs.IsolatedCPUs().Union(cs.ReservedCPUs()).Union(cs.SharableCPUs())
			parentOK = verifAnd(parentOK, call.IsSubsetOf(all))
			for _, d := range kids[i+1:] {
				ds := d.GetSupply()
				dall := ds.IsolatedCPUs().Union(ds.ReservedCPUs()).Union(ds.SharableCPUs())
				siblingOK = verifAnd(siblingOK, call.Intersection(dall).IsEmpty())
			}
			childUnion = childUnion.Union(call)
			if !verifSubsetIDs(verifMemset(c), verifMemset(n)) {
				memOK = false
			}
		}
	}
	rs := p.root.GetSupply()
	rootAll := rs.IsolatedCPUs().Union(rs.ReservedCPUs()).Union(rs.SharableCPUs())
	verifAssert("C16.split-disjoint", splitOK)
	verifAssert("C16.split-follows-config", unionOK)
	verifAssert("C16.parent-contains-children", parentOK)
	verifAssert("C16.siblings-disjoint", siblingOK)
	verifAssert("C16.root-holds-all-allowed", rootAll.Equals(allowed.Intersection(sys.CPUSet())))
	verifAssert("C16.child-mems-subset-of-parent", memOK)
	rootMems := verifMemset(p.root)
	allMems := true
	for _, id := range sys.NodeIDs() {
		allMems = allMems && (verifMemless[id] || rootMems.Has(id))
	}
	verifAssert("C16.root-has-all-memory-nodes", allMems)
	if machine == 4 {
		// memory-less NUMA node #1 gets no pool of its own (its CPUs fold into
		// socket #0); CPU-less PMEM node #4, whose closest CPU-bearing DRAM node
		// is #1, belongs to exactly the pools holding node #1's CPUs (socket #0
		// and the root)
		verifCover("memoryless-machine")
		attachOK, noPool := true, true
		for _, n := range p.pools {
			if n.Name() == "NUMA node #1" {
				noPool = false
			}
			holds := n.Name() == "root" || n.Name() == "socket #0"
			attachOK = attachOK && (verifMemset(n).Has(4) == holds)
		}
		verifAssert("C16.memoryless-node-has-no-pool", noPool)
		verifAssert("C16.cpuless-pmem-follows-closest-cpu-bearing-dram", attachOK)
	}
	if machine == 6 {
		// socket > die > NUMA node: every NUMA node pool hangs off its die's pool
		verifCover("multi-die-machine")
		nested, dies := true, 0
		for _, n := range p.pools {
			switch n.Kind() {
			case DieNode:
				dies++
				nested = nested && len(n.Children()) == 2
			case NumaNode:
				nested = nested && !n.Parent().IsNil() && n.Parent().Kind() == DieNode
			}
		}
		verifAssert("C16.numa-pools-nested-in-their-die", nested && dies == 2)
	}
	if machine == 3 {
		// CPU-less PMEM node #2 belongs to exactly the pools that contain its
		// closest CPU-bearing DRAM node (#0)
		verifCover("pmem-machine")
		attachOK := true
		for _, n := range p.pools {
			mems := verifMemset(n)
			attachOK = attachOK && (mems.Has(2) == mems.Has(0))
		}
		verifAssert("C16.cpuless-pmem-follows-closest-dram", attachOK)
	}
}

// kernel-isolated CPU sets of the fake machines used by VerifC16Constraints
var verifC16Isolated = [][]int{nil, {7}, {0, 1}, {2, 3, 6}, {0}, {4, 5, 6, 7}}

// available / reserved settings as they are written in the configuration
var verifC16Available = []string{"", "cpuset:0-7", "cpuset:1-7", "cpuset:0-5", "cpuset:2-3,6-7", "cpuset:4", "750m", "cpuset:0-"}
var verifC16Reserved = []string{"750m", "1", "2", "2500m", "4", "cpuset:0", "cpuset:1,5", "cpuset:7", "cpuset:0-1", "cpuset:3,6", "cpuset:8", "", "9", "cpuset:x"}

// VerifC16Constraints: the real checkConstraints turns the configured
// available / reserved settings (cpusets or quantities) on machines with
// kernel-isolated CPUs into the allowed / reserved / isolated sets; for every
// setting it accepts (except a reserved cpuset that is itself isolated) the
// sets are consistent and the pool tree built from them is well-formed.
func VerifC16Constraints() {
	machine := []int{0, 1, 2, 5}[verifChoice("machine", verifParam("cmachines", 4))]
	isolatedIDs := verifC16Isolated[verifChoice("isolated", verifParam("isolatedSets", len(verifC16Isolated)))]
	verifIsolatedCPUs = isolatedIDs
	sys, mnodes, _ := verifMachineMem(machine, nil)
	verifIsolatedCPUs = nil
	cfg := verifDefaultConfig()
	avail := verifC16Available[verifChoice("available", verifParam("availables", len(verifC16Available)))]
	resv := verifC16Reserved[verifChoice("reserved", verifParam("reserveds", len(verifC16Reserved)))]
	if avail != "" {
		cfg.AvailableResources = cfgapi.Constraints{cfgapi.CPU: cfgapi.Amount(avail)}
	}
	if resv != "" {
		cfg.ReservedResources = cfgapi.Constraints{cfgapi.CPU: cfgapi.Amount(resv)}
	}
	c := &verifCache{containers: map[string]*verifContainer{}}
	p := &policy{cfg: cfg, cache: c, sys: sys}
	p.cpuAllocator = cpuallocator.NewCPUAllocator(sys)
	ma, err := libmem.NewAllocator(libmem.WithNodes(mnodes))
	if err != nil {
		panic(err)
	}
	p.memAllocator = ma
	opt = cfg
	defaultPrio = cfg.DefaultCPUPriority.Value()
	p.allocations = p.newAllocations()

	if err := p.checkConstraints(); err != nil {
		verifCover("constraints-rejected")
		return
	}
	verifCover("constraints-accepted")
	sysIsolated := cpuset.New(isolatedIDs...)
	byQuantity := len(resv) < 7 || resv[:7] != "cpuset:"
	if !byQuantity && !p.reserved.Intersection(sysIsolated).IsEmpty() {
		// a reserved cpuset that is itself kernel-isolated: outside the property
		verifCover("reserved-cpuset-isolated")
		return
	}
	verifAssert("C16.constraints.allowed-online", p.allowed.IsSubsetOf(sys.CPUSet()))
	verifAssert("C16.constraints.isolated-is-kernel-isolated-and-allowed", p.isolated.Equals(sysIsolated.Intersection(p.allowed)))
	verifAssert("C16.constraints.reserved-nonempty-allowed", !p.reserved.IsEmpty() && p.reserved.IsSubsetOf(p.allowed))
	verifAssert("C16.constraints.reserved-not-isolated", p.reserved.Intersection(p.isolated).IsEmpty())
	if byQuantity {
		verifCover("reserved-by-quantity")
		verifAssert("C16.constraints.reserved-count-covers-quantity", p.reserved.Size() == p.reserveCnt && p.reserveCnt >= 1)
	}
	if err := p.buildPoolsByTopology(); err != nil {
		verifAssert("C16.constraints.accepted-config-builds-pools", false)
		return
	}
	verifC16CheckTree(p, machine, sys, p.allowed, p.reserved, p.isolated)
}
