//go:build verif

package topologyaware

// C16 (pool tree part): for every accepted available/reserved/isolated CPU
// configuration (symbolic cpusets) on each fake machine, the tree built by the
// real buildPoolsByTopology is well-formed.

import (
	"github.com/containers/nri-plugins/pkg/utils/cpuset"
	idset "github.com/intel/goresctrl/pkg/utils"
)

// verifSubsetIDs: every memory node (a NUMA node that has memory) of a is in b.
// A memory-less CPU node that a pool lists because of CPU locality is not a
// memory node in the sense of the property.
func verifSubsetIDs(a, b idset.IDSet) bool {
	for _, id := range a.Members() {
		if verifMemless[id] {
			continue
		}
		if !b.Has(id) {
			return false
		}
	}
	return true
}

func verifMemset(n Node) idset.IDSet {
	all := idset.NewIDSet()
	for _, t := range []memoryType{memoryDRAM, memoryPMEM, memoryHBM} {
		all.Add(n.GetMemset(t).Members()...)
	}
	return all
}

// VerifC16Tree: single tree, virtual root iff several sockets, sibling pools
// disjoint, parent contains children, root holds every allowed CPU, each
// pool's CPUs split disjointly into isolated / reserved / sharable, memory
// nodes of a child are a subset of its parent's and the root has them all.
func VerifC16Tree() {
	machine := []int{0, 1, 2, 3, 4}[verifChoice("machine", verifParam("machines", 5))]
	sys, _, ncpu := verifMachine(machine)
	allowed, reserved, isolated := verifSymbolicConstraints(ncpu, verifParam("constraints", 2))
	w := verifNewPolicy(machine, allowed, reserved, isolated, verifDefaultConfig())
	p := w.p
	verifCover("tree-built")

	// shape
	verifAssert("C16.single-root", p.root != nil && p.root.Parent().IsNil())
	verifAssert("C16.virtual-root-iff-multisocket", (p.root.Kind() == VirtualNode) == (sys.SocketCount() > 1))
	count := 0
	p.root.DepthFirst(func(n Node) { count++ })
	verifAssert("C16.all-pools-reachable", count == len(p.pools) && count == len(p.nodes))

	splitOK, unionOK, parentOK, siblingOK, memOK := true, true, true, true, true
	for _, n := range p.pools {
		s := n.GetSupply()
		iso, res, sha := s.IsolatedCPUs(), s.ReservedCPUs(), s.SharableCPUs()
		splitOK = verifAnd(splitOK, verifAnd(iso.Intersection(res).IsEmpty(), verifAnd(iso.Intersection(sha).IsEmpty(), res.Intersection(sha).IsEmpty())))
		all := iso.Union(res).Union(sha)
		unionOK = verifAnd(unionOK, all.IsSubsetOf(allowed))
		unionOK = verifAnd(unionOK, verifAnd(iso.Equals(all.Intersection(isolated)), res.Equals(all.Intersection(reserved))))
		// free supply starts as a copy of the capacity
		f := n.FreeSupply()
		unionOK = verifAnd(unionOK, verifAnd(f.IsolatedCPUs().Equals(iso), verifAnd(f.ReservedCPUs().Equals(res), f.SharableCPUs().Equals(sha))))
		kids := n.Children()
		childUnion := cpuset.New()
		for i, c := range kids {
			cs := c.GetSupply()
			call := cs.IsolatedCPUs().Union(cs.ReservedCPUs()).Union(cs.SharableCPUs())
			parentOK = verifAnd(parentOK, call.IsSubsetOf(all))
			for _, d := range kids[i+1:] {
				ds := d.GetSupply()
				dall := ds.IsolatedCPUs().Union(ds.ReservedCPUs()).Union(ds.SharableCPUs())
				siblingOK = verifAnd(siblingOK, call.Intersection(dall).IsEmpty())
			}
			childUnion = childUnion.Union(call)
			if !verifSubsetIDs(verifMemset(c), verifMemset(n)) {
				memOK = false
			}
		}
	}
	rs := p.root.GetSupply()
	rootAll := rs.IsolatedCPUs().Union(rs.ReservedCPUs()).Union(rs.SharableCPUs())
	verifAssert("C16.split-disjoint", splitOK)
	verifAssert("C16.split-follows-config", unionOK)
	verifAssert("C16.parent-contains-children", parentOK)
	verifAssert("C16.siblings-disjoint", siblingOK)
	verifAssert("C16.root-holds-all-allowed", rootAll.Equals(allowed.Intersection(sys.CPUSet())))
	verifAssert("C16.child-mems-subset-of-parent", memOK)
	rootMems := verifMemset(p.root)
	allMems := true
	for _, id := range sys.NodeIDs() {
		allMems = allMems && (verifMemless[id] || rootMems.Has(id))
	}
	verifAssert("C16.root-has-all-memory-nodes", allMems)
	if machine == 4 {
		// memory-less NUMA node #1 gets no pool of its own (its CPUs fold into
		// socket #0); CPU-less PMEM node #4, whose closest CPU-bearing DRAM node
		// is #1, belongs to exactly the pools holding node #1's CPUs (socket #0
		// and the root)
		verifCover("memoryless-machine")
		attachOK, noPool := true, true
		for _, n := range p.pools {
			if n.Name() == "NUMA node #1" {
				noPool = false
			}
			holds := n.Name() == "root" || n.Name() == "socket #0"
			attachOK = attachOK && (verifMemset(n).Has(4) == holds)
		}
		verifAssert("C16.memoryless-node-has-no-pool", noPool)
		verifAssert("C16.cpuless-pmem-follows-closest-cpu-bearing-dram", attachOK)
	}
	if machine == 3 {
		// CPU-less PMEM node #2 belongs to exactly the pools that contain its
		// closest CPU-bearing DRAM node (#0)
		verifCover("pmem-machine")
		attachOK := true
		for _, n := range p.pools {
			mems := verifMemset(n)
			attachOK = attachOK && (mems.Has(2) == mems.Has(0))
		}
		verifAssert("C16.cpuless-pmem-follows-closest-dram", attachOK)
	}
}
