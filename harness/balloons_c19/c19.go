//go:build verif

package balloons

// C19 (balloon-type selection): a container's balloon type is the one named
// by its effective balloon annotation (an unknown name is an error), otherwise
// the first type in configured order with a matching expression or namespace
// pattern, otherwise the default type; kube-system and the configured
// reserved namespaces match the reserved type.
//
// Real code: (*balloons).chooseBalloonDef, balloonDefByName, namespaceMatches,
// fillBuiltinBalloonDefs, resmgr.(*Expression).Evaluate/KeyValue/ResolveRef,
// path/filepath.Match.

import (
	"errors"
	"path/filepath"

	resmgr "github.com/containers/nri-plugins/pkg/apis/resmgr/v1alpha1"
	"github.com/containers/nri-plugins/pkg/resmgr/cache"
)

// verifCtr is a minimal cache.Container: only what balloon-type selection and
// expression evaluation call is implemented (anything else nil-derefs the
// embedded interface, which the engine reports).
type verifCtr struct {
	cache.Container
	name      string
	namespace string
	labels    map[string]string
	ann       string
	hasAnn    bool
	annKey    string // key of the last GetEffectiveAnnotation call
}

func (c *verifCtr) PrettyName() string   { return c.namespace + "/pod/" + c.name }
func (c *verifCtr) String() string       { return c.PrettyName() }
func (c *verifCtr) GetName() string      { return c.name }
func (c *verifCtr) GetNamespace() string { return c.namespace }
func (c *verifCtr) GetEffectiveAnnotation(key string) (string, bool) {
	c.annKey = key
	return c.ann, c.hasAnn
}
func (c *verifCtr) EvalKey(key string) interface{} {
	switch key {
	case resmgr.KeyName:
		return c.name
	case resmgr.KeyNamespace:
		return c.namespace
	case resmgr.KeyLabels:
		return c.labels
	}
	return errors.New("verifCtr cannot evaluate key")
}
func (c *verifCtr) EvalRef(key string) (string, bool) { return resmgr.KeyValue(key, c) }

var verifDefNames = []string{"alpha", "beta", "gamma", "delta"}

var verifNamespaces = []string{"prod", "dev", "kube-system", "p"}

// namespace globs: none, catch-all, prefix, single-char, malformed (ignored by
// the real code: filepath.Match error), exact
var verifNsPatterns = []string{"", "*", "p*", "de?", "[", "kube-system"}

func verifExpr(k int) []resmgr.Expression {
	switch k {
	case 1:
		return []resmgr.Expression{{Key: "labels/app", Op: resmgr.In, Values: []string{"a", "c"}}}
	case 2:
		return []resmgr.Expression{{Key: "namespace", Op: resmgr.MatchesNot, Values: []string{"p*"}}}
	case 3:
		return []resmgr.Expression{{Key: "labels/app", Op: resmgr.NotExist}}
	case 4: // two expressions: any one matching selects the type
		return []resmgr.Expression{
			{Key: "name", Op: resmgr.Equals, Values: []string{"nomatch"}},
			{Key: ":,-namespace,labels/app", Op: resmgr.Matches, Values: []string{"p*-b"}},
		}
	}
	return nil
}

func verifNewCtr() *verifCtr {
	c := &verifCtr{name: "c0"}
	c.namespace = verifNamespaces[verifChoice("namespace", verifParam("namespaces", len(verifNamespaces)))]
	switch verifChoice("label", 3) {
	case 0:
		c.labels = map[string]string{"other": "x"}
	case 1:
		c.labels = map[string]string{"app": "a"}
	case 2:
		c.labels = map[string]string{"app": "b", "other": "x"}
	}
	return c
}

// reference: documented selection order, re-using the real expression
// evaluation and the real glob matcher
func verifRefChoose(p *balloons, c *verifCtr) (*BalloonDef, bool) {
	if c.hasAnn {
		for _, d := range p.bpoptions.BalloonDefs {
			if d.Name == c.ann {
				return d, false
			}
		}
		return nil, true
	}
	for _, d := range p.bpoptions.BalloonDefs {
		hit := false
		for i := range d.MatchExpressions {
			if d.MatchExpressions[i].Evaluate(c) {
				hit = true
			}
		}
		for _, pat := range d.Namespaces {
			if m, err := filepath.Match(pat, c.namespace); err == nil && m {
				hit = true
			}
		}
		if hit {
			return d, false
		}
	}
	return p.defaultBalloonDef, false
}

// VerifC19ChooseDef: real chooseBalloonDef on a policy with 0..n balloon
// types (distinct names; each with one of the expression sets above or none,
// and one namespace glob or none) plus a separate default type, for a
// container with namespace/labels/annotation by case split.
func VerifC19ChooseDef() {
	c := verifNewCtr()
	n := verifChoice("ndefs", verifParam("defs", 3)+1)
	ann := verifChoice("annotation", n+2) // 0: none, 1..n: names def k-1, n+1: unknown name
	if ann > 0 {
		c.hasAnn = true
		if ann <= n {
			c.ann = verifDefNames[ann-1]
		} else {
			c.ann = "nosuchtype"
		}
	}
	opts := &BalloonsOptions{}
	for i := 0; i < n; i++ {
		d := &BalloonDef{Name: verifDefNames[i]}
		if c.hasAnn {
			// the annotation wins over types that would match anything
			d.MatchExpressions = []resmgr.Expression{{Op: resmgr.AlwaysTrue}}
			d.Namespaces = []string{"*"}
		} else {
			d.MatchExpressions = verifExpr(verifChoice("expr", verifParam("exprs", 5)))
			if pat := verifNsPatterns[verifChoice("nspattern", verifParam("patterns", len(verifNsPatterns)))]; pat != "" {
				d.Namespaces = []string{pat}
			}
		}
		opts.BalloonDefs = append(opts.BalloonDefs, d)
	}
	def := &BalloonDef{Name: defaultBalloonDefName}
	p := &balloons{bpoptions: opts, defaultBalloonDef: def}

	want, wantErr := verifRefChoose(p, c)
	got, err := p.chooseBalloonDef(c)

	verifCover("chosen")
	verifAssert("C19.choose-annotation-key", c.annKey == balloonKey)
	verifAssert("C19.choose-error", (err != nil) == wantErr)
	verifAssert("C19.choose-def", got == want)
	switch {
	case c.hasAnn && wantErr:
		verifCover("unknown-annotation")
		verifAssert("C19.choose-unknown-annotation", got == nil && err != nil)
	case c.hasAnn:
		verifCover("annotated")
		verifAssert("C19.choose-annotated", got != nil && got.Name == c.ann && got == opts.BalloonDefs[ann-1])
	case got == def:
		verifCover("default")
	default:
		verifCover("matched")
		// nothing earlier in the list matches
		for _, d := range opts.BalloonDefs {
			if d == got {
				break
			}
			for i := range d.MatchExpressions {
				verifAssert("C19.choose-first-match", !d.MatchExpressions[i].Evaluate(c))
			}
			verifAssert("C19.choose-first-match", !namespaceMatches(c.namespace, d.Namespaces))
		}
	}
}

var verifReservedNs = [][]string{nil, {"monitoring"}, {"mon*", "infra"}}

// VerifC19Builtin: real fillBuiltinBalloonDefs (no ReservedResources/CPU
// amount configured) on 0..2 user types whose names may be "reserved" and
// "default": both builtin types exist afterwards; an implicit reserved type
// is first, an implicit default type last; the reserved type's namespaces
// contain kube-system and every ReservedPoolNamespaces entry; and with the
// reserved type implicit, real chooseBalloonDef sends an un-annotated
// container of kube-system or of a reserved namespace to the reserved type.
func VerifC19Builtin() {
	names := []string{"alpha", reservedBalloonDefName, defaultBalloonDefName}
	n := verifChoice("ndefs", 3)
	opts := &BalloonsOptions{}
	explicitReserved, explicitDefault := false, false
	for i := 0; i < n; i++ {
		k := verifChoice("name", len(names))
		if i == 1 && names[k] == opts.BalloonDefs[0].Name {
			verifAssume(false) // duplicate names are refused by validateConfig
		}
		d := &BalloonDef{Name: names[k]}
		switch verifChoice("matcher", 3) {
		case 1:
			d.Namespaces = []string{"*"}
		case 2:
			d.MatchExpressions = []resmgr.Expression{{Key: "name", Op: resmgr.Exists}}
		}
		explicitReserved = explicitReserved || k == 1
		explicitDefault = explicitDefault || k == 2
		opts.BalloonDefs = append(opts.BalloonDefs, d)
	}
	rns := verifReservedNs[verifChoice("reservedNs", len(verifReservedNs))]
	opts.ReservedPoolNamespaces = rns
	user := append([]*BalloonDef{}, opts.BalloonDefs...)

	p := &balloons{}
	res, def, err := p.fillBuiltinBalloonDefs(opts)
	verifCover("filled")
	verifAssert("C19.builtin-ok", err == nil && res != nil && def != nil)
	if err != nil || res == nil || def == nil {
		return
	}
	verifAssert("C19.builtin-names", res.Name == reservedBalloonDefName && def.Name == defaultBalloonDefName)
	defs := opts.BalloonDefs
	wantLen := len(user)
	if !explicitReserved {
		wantLen++
	}
	if !explicitDefault {
		wantLen++
	}
	verifAssert("C19.builtin-count", len(defs) == wantLen)
	if len(defs) != wantLen {
		return
	}
	off := 0
	if !explicitReserved {
		verifCover("implicit-reserved")
		verifAssert("C19.builtin-reserved-first", defs[0] == res)
		off = 1
	}
	if !explicitDefault {
		verifCover("implicit-default")
		verifAssert("C19.builtin-default-last", defs[len(defs)-1] == def)
	}
	for i, d := range user {
		verifAssert("C19.builtin-user-order-kept", defs[off+i] == d)
	}
	has := func(ns string) bool {
		for _, x := range res.Namespaces {
			if x == ns {
				return true
			}
		}
		return false
	}
	verifAssert("C19.builtin-kube-system", has("kube-system"))
	for _, ns := range rns {
		verifAssert("C19.builtin-reserved-namespaces", has(ns))
	}
	verifAssert("C19.builtin-one-reserved", res.MinBalloons == 1 && res.MaxBalloons == 1)

	// selection on the filled configuration
	p.bpoptions, p.reservedBalloonDef, p.defaultBalloonDef = opts, res, def
	nss := []string{"kube-system", "monitoring", "infra", "prod"}
	c := &verifCtr{name: "c0", namespace: nss[verifChoice("namespace", len(nss))], labels: map[string]string{}}
	got, err := p.chooseBalloonDef(c)
	want, _ := verifRefChoose(p, c)
	verifAssert("C19.builtin-choose", err == nil && got == want)
	reservedNs := c.namespace == "kube-system" || namespaceMatches(c.namespace, rns)
	if !explicitReserved && reservedNs {
		verifCover("reserved-namespace")
		verifAssert("C19.builtin-reserved-namespace-to-reserved", got == res)
	}
	if !explicitReserved && !reservedNs && n == 0 {
		verifCover("other-namespace")
		verifAssert("C19.builtin-other-to-default", got == def)
	}
}
