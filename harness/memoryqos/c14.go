//go:build verif

package main

// C14 (memory-qos part): no CreateContainer request can crash the plugin,
// and a refused request leaves it able to serve the next one.
// Real code: (*plugin).CreateContainer, effectiveAnnotations, applyQosClass,
// associate, sliceContains, pprintCtr.

import (
	"context"
	"math"

	"github.com/containerd/nri/pkg/api"
)

var verifC14Prefixes = []string{"class", "memory.high", "memory.swap.max", "bogus"}

func verifC14Config(k int) *pluginConfig {
	switch k {
	case 1:
		return &pluginConfig{}
	case 2:
		return &pluginConfig{
			UnifiedAnnotations: []string{"memory.high"},
			Classes: []QoSClass{
				{Name: "sw", SwapLimitRatio: 0.5},
				{Name: "ns", SwapLimitRatio: 0},
			},
		}
	}
	return nil // plugin started without -config and not configured by the runtime
}

// verifC14Container: optional sub-messages nil or present.
//
//	0: ctr.Linux == nil            3: Memory.Limit == nil
//	1: Linux.Resources == nil      4..: everything present, limit from a few values
//	2: Resources.Memory == nil
func verifC14Container(name string, shape int) *api.Container {
	ctr := &api.Container{Id: "ctr0", PodSandboxId: "pod0", Name: name}
	if shape >= 1 {
		ctr.Linux = &api.LinuxContainer{}
	}
	if shape >= 2 {
		ctr.Linux.Resources = &api.LinuxResources{}
	}
	if shape >= 3 {
		ctr.Linux.Resources.Memory = &api.LinuxMemory{}
	}
	if shape >= 4 {
		limits := []int64{1000, 0, -1, math.MaxInt64}
		ctr.Linux.Resources.Memory.Limit = &api.OptionalInt64{Value: limits[(shape-4)%len(limits)]}
	}
	return ctr
}

const verifC14Shapes = 8

// VerifC14MemoryQoS: one CreateContainer request, then a valid one.
//
// Plugin configuration: nil, empty, or a small one (2 classes, one
// unified annotation). Pod annotations: any <= maxAnn of the 13 keys
// {class, memory.high, memory.swap.max, bogus} x {this container, another
// container, pod-level} + an unrelated key, nil map when empty; class values
// are empty or arbitrary 2-byte strings, other values arbitrary 3-byte
// strings; all iteration orders of both range loops. Container sub-messages
// Linux/.Resources/.Memory/.Limit nil or present (all shapes when a class
// annotation is present, otherwise Linux nil or everything present).
//
// Sub-claims that are anticipated to fail on the unchanged tree have their
// own labels (selected by the request's shape, not by the crash site):
//
//	C14.memory-qos.no-panic.unconfigured         p.config == nil
//	C14.memory-qos.no-panic.no-memory-resources  configured, ctr.Linux/.Resources/.Memory absent
//	C14.memory-qos.no-panic                      everything else
func VerifC14MemoryQoS() {
	verifInitLog()
	cfgKind := verifChoice("config", 3)
	p := &plugin{config: verifC14Config(cfgKind)}
	name, other := "c0", "c1"

	var ann map[string]string
	n, maxAnn := 0, verifParam("maxAnn", 2)
	classAnnotated := false
	for k := 0; k < 13; k++ {
		if n >= maxAnn || verifChoice("has", 2) == 0 {
			continue
		}
		if ann == nil {
			ann = map[string]string{}
		}
		key := "io.kubernetes.cri.sandbox-name"
		val := ""
		if k < 12 {
			prefix, form := verifC14Prefixes[k/3], k%3
			key = verifAnnKey(prefix, form, name, other)
			if prefix == "class" {
				classAnnotated = true
				val = verifBytes("v"+string(rune('a'+k)), 2*verifChoice("classlen", 2))
			} else {
				val = verifBytes("v"+string(rune('a'+k)), 3)
			}
		}
		ann[key] = val
		n++
	}
	verifMapOrder(ann)
	pod := &api.PodSandbox{Id: "pod0", Name: "pod", Namespace: "ns", Annotations: ann}

	shape := 0
	if classAnnotated && cfgKind == 2 {
		shape = verifChoice("shape", verifC14Shapes)
	} else if verifChoice("shape", 2) == 1 {
		shape = 4
	}
	ctr := verifC14Container(name, shape)

	var (
		adj *api.ContainerAdjustment
		upd []*api.ContainerUpdate
		err error
	)
	returned := verifNoPanic(func() {
		adj, upd, err = p.CreateContainer(context.Background(), pod, ctr)
	})
	verifCover("first-request")
	switch {
	case cfgKind == 0:
		verifAssert("C14.memory-qos.no-panic.unconfigured", returned)
	case shape < 3:
		verifAssert("C14.memory-qos.no-panic.no-memory-resources", returned)
	default:
		verifAssert("C14.memory-qos.no-panic", returned)
	}
	if !returned {
		return
	}
	// (cover points only where the outcome cannot depend on Go's map order)
	if err != nil {
		if n <= 1 {
			verifCover("first-request-refused")
		}
		verifAssert("C14.memory-qos.refused-without-effect", adj == nil && upd == nil)
	} else if n <= 1 {
		verifCover("first-request-accepted")
	}

	// a later, valid request is served
	pod2 := &api.PodSandbox{Id: "pod1", Name: "pod1", Namespace: "ns"}
	expAdjusted := false
	if cfgKind == 2 {
		pod2.Annotations = map[string]string{
			"class" + annotationSuffix:               "sw",
			"memory.high" + annotationSuffix + "/c9": "12345",
		}
		expAdjusted = true
	}
	ctr2 := verifContainer("c9", 1000)
	ctr2.Id, ctr2.PodSandboxId = "ctr1", "pod1"
	var adj2 *api.ContainerAdjustment
	var err2 error
	returned2 := verifNoPanic(func() {
		adj2, _, err2 = p.CreateContainer(context.Background(), pod2, ctr2)
	})
	verifCover("second-request")
	verifAssert("C14.memory-qos.later-request.no-panic", returned2)
	if !returned2 {
		return
	}
	verifAssert("C14.memory-qos.later-request.served", err2 == nil)
	if err2 != nil {
		return
	}
	if expAdjusted {
		u := verifUnifiedOf(adj2)
		verifAssert("C14.memory-qos.later-request.adjusted",
			adj2 != nil && len(u) == 2 && u["memory.high"] == "12345" && u["memory.swap.max"] == "max")
	} else {
		verifAssert("C14.memory-qos.later-request.untouched", adj2 == nil)
	}
}
