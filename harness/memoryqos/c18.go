//go:build verif

package main

// C18 (memory-qos part): container-specific annotations beat pod-level ones,
// annotations for other containers have no effect, an explicitly annotated
// cgroup parameter beats the value derived from the annotated class — for
// every iteration order of the pod's annotation map and of the effective
// annotation map.
// Real code: (*plugin).CreateContainer, effectiveAnnotations, applyQosClass,
// associate, sliceContains, pprintCtr.

import (
	"context"

	"github.com/containerd/nri/pkg/api"
)

var verifC18Prefixes = []string{"class", "memory.high", "memory.swap.max"}

// classes of the harness configuration and what they must contribute for a
// container with memory limit 1000 (reference values, not recomputed with
// the plugin's formula)
const verifC18Limit = 1000

func verifC18Config() *pluginConfig {
	return &pluginConfig{
		UnifiedAnnotations: []string{"memory.high", "memory.swap.max"},
		Classes: []QoSClass{
			{Name: "sw", SwapLimitRatio: 0.5},  // memory.high=500, memory.swap.max=max
			{Name: "ns", SwapLimitRatio: 0},    // nothing
			{Name: "lo", SwapLimitRatio: 0.25}, // memory.high=750, memory.swap.max=max
		},
	}
}

// VerifC18MemoryQoS: the pod carries a solver-chosen subset (<= maxAnn) of
// the nine annotations {class, memory.high, memory.swap.max} x {for this
// container, for another container, pod-level}; every value is an arbitrary
// 2-byte string (class values thus name one of the three configured classes
// or none). CreateContainer's result must equal the reference resolution.
func VerifC18MemoryQoS() {
	verifInitLog()
	p := &plugin{config: verifC18Config()}
	names := []string{"c0", "b"}
	name := names[verifChoice("name", verifParam("names", len(names)))]
	other := ""
	otherDrawn := false

	ann := map[string]string{}
	var eff [3]verifEff
	n, maxAnn := 0, verifParam("maxAnn", 3)
	for pi, prefix := range verifC18Prefixes {
		for form := 0; form < 3; form++ {
			if n >= maxAnn || verifChoice("has", 2) == 0 {
				continue
			}
			if form == verifFormOther && !otherDrawn {
				// any other container name: arbitrary bytes, e.g. "", "0", "xb", "/b"
				other = verifNondetString("other", verifParam("otherLen", 2))
				verifAssume(other != name)
				otherDrawn = true
			}
			val := verifBytes("v"+string(rune('0'+3*pi+form)), 2)
			ann[verifAnnKey(prefix, form, name, other)] = val
			eff[pi].note(form, val)
			n++
		}
	}
	verifMapOrder(ann)
	pod := &api.PodSandbox{Id: "pod0", Name: "pod", Namespace: "ns", Annotations: ann}
	ctr := verifContainer(name, verifC18Limit)

	// (a) effectiveAnnotations itself
	if verifChoice("mode", 2) == 0 {
		got := effectiveAnnotations(pod, ctr)
		verifCover("effective-annotations")
		expLen := 0
		for pi, prefix := range verifC18Prefixes {
			v, ok := got[prefix]
			verifAssert("C18.memory-qos.effective.present", ok == eff[pi].has)
			if eff[pi].has {
				expLen++
				verifAssert("C18.memory-qos.effective.value", v == eff[pi].val)
			}
		}
		verifAssert("C18.memory-qos.effective.nothing-else", len(got) == expLen)
		return
	}

	// (b) CreateContainer
	adj, upd, err := p.CreateContainer(context.Background(), pod, ctr)
	verifAssert("C18.memory-qos.no-updates", upd == nil)

	// reference: class contribution, then explicit parameters on top
	class, high, swap := eff[0], eff[1], eff[2]
	expHigh, expSwap := verifEff{}, verifEff{}
	if class.has {
		switch {
		case class.val == "sw":
			expHigh, expSwap = verifEff{true, "500"}, verifEff{true, "max"}
		case class.val == "ns":
		case class.val == "lo":
			expHigh, expSwap = verifEff{true, "750"}, verifEff{true, "max"}
		default:
			verifCover("unknown-class-refused")
			verifAssert("C18.memory-qos.unknown-class-refused", err != nil && adj == nil)
			return
		}
	}
	if high.has {
		expHigh = high
	}
	if swap.has {
		expSwap = swap
	}
	verifAssert("C18.memory-qos.accepted", err == nil)
	if err != nil {
		return
	}
	unified := verifUnifiedOf(adj)
	expN := 0
	if expHigh.has {
		expN++
	}
	if expSwap.has {
		expN++
	}
	if expN == 0 {
		verifCover("no-adjustment")
		verifAssert("C18.memory-qos.no-adjustment", adj == nil)
		return
	}
	verifCover("adjusted")
	if class.has && high.has {
		verifCover("explicit-parameter-and-class")
	}
	verifAssert("C18.memory-qos.adjusted", adj != nil)
	verifAssert("C18.memory-qos.unified.size", len(unified) == expN)
	gh, okh := unified["memory.high"]
	verifAssert("C18.memory-qos.unified.memory.high.present", okh == expHigh.has)
	if expHigh.has {
		verifAssert("C18.memory-qos.unified.memory.high", gh == expHigh.val)
	}
	gs, oks := unified["memory.swap.max"]
	verifAssert("C18.memory-qos.unified.memory.swap.max.present", oks == expSwap.has)
	if expSwap.has {
		verifAssert("C18.memory-qos.unified.memory.swap.max", gs == expSwap.val)
	}
}
